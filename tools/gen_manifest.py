#!/usr/bin/env python3
"""Writes /verif/MANIFEST.json from the table below (single source of truth)."""
import json
import os
import subprocess
import sys

VERIF = os.path.dirname(os.path.dirname(os.path.abspath(__file__)))
PY = "python3-vt"

CHECKS = {
    "C01": dict(
        script="checks/c01.py",
        level="translation_validation",
        text="The port and the Decay0 2020-04-20 Fortran reference (compiled from the file in /repo with gfortran) are run "
             "side by side on the same deviate tape for every one of the 61 reference nuclides: millions of tapes, i.i.d. and "
             "steered (each of the first <=64 cells pinned over a log-tail/quantile grid and at branching thresholds harvested "
             "from both sources, +-1e-9; pairs of pinned cells; a frontier search over pinned cells guided by new branch signatures that "
             "reaches rare branches of rare branches); the comparator demands equal draw counts, species, momenta "
             "(1e-9) and running-sum times, with only the documented admissible differences. Building blocks (fermi, beta*, "
             "nucltransK*, PbAtShell, pair, plog69) are compared function by function on random parameters. "
             "Decides the property for the tapes driven; reports distinct reference branch signatures reached."
             " The steering candidates include each threshold itself and its floating-point neighbours (<= versus <), and a second search pass guided by (branch, number of deviates) refines every accept/reject boundary of the rejection samplers; a documented difference (the revised Y90 pair spectrum) must be present.",
        note="CERNLIB kernels absent from the repository (gauss, dgmlt, divdif, cgamma, ranlux) are shared by both sides; "
             "8-digit literals of pi/2pi in the reference are widened to binary64; reference locals are zero-initialised "
             "(-finit-local-zero) because Pa234m/Pb211 read an uninitialised level half-life; while the recorded fermi finding "
             "stands the port's fermi is linked into the reference for event-level runs.",
        technique="differential runtime monitor: reference program as executable oracle on replayed/steered deviate tapes",
        design="DESIGN.md section 1.2-1.4 and section 2, C01",
    ),
    "C02": dict(
        script="checks/c02.py",
        level="translation_validation",
        text="Every (isotope, level 0..16, mode 1..20) cell, plus seeded energy windows on the window-capable modes and seeded "
             "NMEs for mode 18, is initialised on both the port and the Fortran reference: ier, toallevents, clamped range, level "
             "energy and initialisation draws must agree; accepted cells then generate events on shared deviate tapes (i.i.d. and "
             "with each of the first 12 cells pinned over a log-tail/quantile grid, and a signature-guided frontier search through the "
             "daughter's de-excitation cascade) compared particle by particle (primary leptons/"
             "X-rays, de-excitation cascade, follow-up alpha chains), and the porcelain generator must reproduce the plumbing bit "
             "for bit. Quick samples 25% of the quadrature-heavy modes, thorough runs all of them."
             " Deep steering as in C01 (exact thresholds, deviate-count pass); the recorded root cause of the reference's in-place 50 eV clamp is confirmed by a replay whenever a counter in the shim saw the clamp act; the three start modes of genbbsub are compared in C05.",
        note="Same trusted base as C01 (shared CERNLIB kernels, pi widening, zero-initialised reference locals, port fermi linked "
             "into the reference while the C01 fermi finding stands). Mode 20 with level != 0 is left to C06 (the reference "
             "silently rewrites the level).",
        technique="differential runtime monitor: reference program as executable oracle on replayed/steered deviate tapes",
        design="DESIGN.md section 2, C02",
    ),
    "C03": dict(
        script="checks/c03.py",
        level="exploration",
        text="Every (isotope, level, mode) the reference rules accept, with random and nested energy windows, is generated through "
             "decay0_generator on i.i.d. and steered tapes (incl. the signature-guided frontier search through the cascades); a monitor sums the visible energy of every event and compares it with "
             "a Q/EK/level table parsed at check time from the reference source (cross-checked with the README level list), "
             "checks the lepton energy sum against the window, and toallevents >= 1, == 1 on the full range and monotone along "
             "nested windows. The histogram of E_vis - Q is published (observed: only -1, 0, +1 keV).",
        note="Oracle table comes from resources/code/decay0/decay0_2020-04-20.for, not from the code under test; tolerance 3 keV; "
             "chain isotopes: particles before the first alpha; gA modes are bound by C14.",
        technique="runtime invariant monitor (conservation of energy against an independent table) over generated events",
        design="DESIGN.md section 2, C03",
    ),
    "C04": dict(
        script="checks/c04.py",
        level="exploration",
        text="All 69 background names and all accepted double-beta configurations (plus windows) are shot on hostile deviate tapes: "
             "each of the first <=64 cells pinned to 1e-12, 1-1e-12, 1e-300, neighbouring cells in opposite tails, grids, branching "
             "thresholds, whole prefixes in one tail, a signature-guided frontier search over pinned cells, window ladders climbing to "
             "the end-point; every event passes the well-formedness monitor and the draw counter bounds the work per shot (hard cap 2e6, "
             "work bound 20000; reported max and 99.9 percentile). The reach of the workload inside the library (gcov build: lines, branch "
             "outcomes, functions never called) is measured and stored in the evidence."
             " The arguments of every executed nuclear-transition call (decay0_nucltransK/KL/KLM/KLM_Pb, interposed through the PLT) are checked (conversion only above the shell's binding energy, pairs only above 1.022 MeV); at most one alpha per background event; mode-10 windows in the tail of the positron spectrum are a recorded finding (unbounded work), witnessed in every run.",
        note="Bounded work is decided in deviates, not seconds; on mode 10 (one positron rejected under the maximum of the whole spectrum, as "
             "in the reference) a window holding < 1/300 of the spectrum is reported but not judged.",
        technique="runtime assertion monitor on every generated event + logical-clock (draw count) bound, steered inputs",
        design="DESIGN.md section 2, C04",
    ),
    "C05": dict(
        script="checks/c05.py",
        level="exploration",
        text="Dispatch: for every published background name (README and list-file spellings) and every tabulated double-beta "
             "level, thousands of deviate tapes are run through genbbsub(name) and through the scheme functions that the README "
             "names for it, called directly; the two events must be bit-identical (same binary, same inputs). Catalogues: README "
             "bullets, .lis files read through the library's own accessors, and the set of names decay0_generator accepts over a "
             "candidate universe (README + .lis + reference names + every exported scheme symbol) must be equal; mode labels must "
             "round-trip and match the README table."
             " Accepted means 'initialises'; names with leading junk and published names cut short are probed; the three start modes of genbbsub agree on every published name; exactly one alpha in Bi212+Po212 / Bi214+Po214 events.",
        note="The name -> scheme table is derived from README annotations and exported headers, not from genbbsub.cc; daughters "
             "follow unless the parent emitted an alpha; daughter nucleus of a double-beta isotope from (Z, A).",
        technique="runtime differential monitor (dispatcher vs direct call, bit-identity) + set-equality monitor over enumerated catalogues",
        design="DESIGN.md section 2, C05",
    ),
    "C06": dict(
        script="checks/c06.py",
        level="exploration",
        text="The finite grid (51 isotopes + 4 unknown names) x levels -1..17 x modes 0..25 x 4 window kinds is enumerated; every cell is "
             "configured and initialised through decay0_generator and the verdict compared with an executable model of the stated rules "
             "(tables parsed from the reference source, synthetic gA datasets); accepted cells shoot events through the C04 monitor, rejected "
             "cells must not shoot and must stay un-initialised. Thorough initialises every cell (exhaustive); quick samples 5% of the accepted "
             "quadrature-heavy cells."
             " The same settings in a permuted order of setter calls (also after a detour through the other category), negative lower window bounds, requests without a level, and a scripted history with a failed gA table load get the same verdict as a new object.",
        note="Agreement of the model with the Fortran reference's ier (modes 1..20, no window) is established by C02 on the same cells; "
             "tabulated levels whose spin is neither 0+ nor 2+ (3 levels) get no verdict.",
        technique="runtime monitor against an executable reference model over an enumerated configuration grid",
        design="DESIGN.md section 2, C06",
    ),
    "C07": dict(
        script="checks/c07.py",
        level="exploration",
        text="For every background name and several hundred double-beta configurations (weighted towards the schemes with angular-"
             "correlation fix-ups) the canonical event of a tape (fresh generator, fresh event, first shot) is compared bit for bit with the "
             "event after each of ten kinds of history: prior shots (1/7/1000), reused or pre-filled (0..150 junk particles) or moved-from "
             "event objects, forced capacities, foreign instances created/initialised (also failing, also gA)/shot/reset/destroyed in between, "
             "reset + identical re-configuration, another initialisation deviate source, live twin instances."
             " Further histories: an earlier life of the instance as another configuration (incl. the 16 gA tables), a user operation appending a copy of the event's own first particle to a full list; per-configuration event streams alone in a process versus in company of all other configurations; every pool item as the first thing a forked process does versus later in the configuration's sequence; first-use statics compared across processes with different orders.",
        note="Bit-identity between runs of the same binary; histories are short programs over the public API composed from VERIF_SEED.",
        technique="runtime history monitor: replayed deviate tape, canonical-run oracle, bitwise comparison",
        design="DESIGN.md section 2, C07",
    ),
    "C08": dict(
        script="checks/c08.py",
        level="exploration",
        text="The generation drivers (hostile-tape monitor over all background names and sampled double-beta configurations incl. windows "
             "reaching the end of the 1-keV tables, event-reuse histories, and - once built - post-generation operations and the gA sampler) "
             "run in the ASan+UBSan build with libstdc++ assertions and vector annotations; reports are fatal and keyed kind|frame0|frame1; "
             "a canary self-test proves the runtime is active before anything is believed."
             " gen_monitor also checks the capacity invariant of the keV-binned tables (int(e0*1000) <= SPSIZE) and that the parameters fixed by initialize() read the same after the shots (intra-object overruns are invisible to the sanitizers); the C05 dispatch workload (all start modes) and the echo-operation history run under ASan; a memcheck pass reads for uninitialised values.",
        note="Red-zone tools miss intra-object overflows and recycled memory; libgsl/libstdc++ uninstrumented; held on the executions driven.",
        technique="compiler sanitizers (AddressSanitizer + UndefinedBehaviorSanitizer + _GLIBCXX_ASSERTIONS) under steered workloads",
        design="DESIGN.md section 2, C08",
    ),
    "C09": dict(
        script="checks/c09.py",
        level="model_checking",
        text="An executable model of the protocol (initialised flag, seven configuration fields, operation count, event count, version flag) is "
             "explored breadth-first over MODEL states; every (state, operation) pair within the depth bound (6 quick / 8 thorough, 23 operations) "
             "is executed on the real decay0_generator by replaying the shortest sequence that reaches the state, and after every call the "
             "implementation is compared with the model: throws <=> model, all getters, reset == freshly constructed object, failed initialize => "
             "object still initialisable. The first hit in BFS order is a minimal failing sequence. Repeated in the ASan/UBSan build."
             " An invalid-configuration grid (windows on the ten modes without window support at 0+ and 2+ levels, quadruple-beta to excited levels, names with leading junk) and the debug switch as one more getter (every fifth trace).",
        note="Bounded depth and a small alphabet of cheap configurations; the general accept/reject rules are C06's; every trace is validated "
             "against the implementation (no abstraction gap beyond the alphabet).",
        technique="runtime conformance monitor: executable reference model + exhaustive bounded BFS of API call sequences replayed on the real object",
        design="DESIGN.md section 2, C09",
    ),
    "C10": dict(
        script="checks/c10.py",
        level="exploration",
        text="Hundreds of thousands of operation applications on events of 30 generators: a monitor snapshots the event before and after and "
             "checks count/species/times bit-identical, |p| to 1e-12, the draw discipline (stand-alone operation on the plain decay with the tape at "
             "n0 reproduces generator+operation bit for bit), rigid proper rotation and cone / rectangular-window membership (both half-angles) in "
             "target mode, membership and untouched rest in selection mode, the nothing-selected behaviour, get_last_target_index, and equality "
             "of the degree-based and radian-based entry points; degenerate null half-angles must be refused or honoured, never spin."
             " Every third case registers 2-3 operations in one generator (== the stand-alone operations in registration order); a long-lived configuration record reset() and refilled.",
        note="Cone frame defined by the axis vector; rectangular windows drawn with analytic acceptance >= 4e-3 so the draw cap cannot fire on correct code.",
        technique="runtime before/after invariant monitor on hooked operation calls, replayed deviate tape",
        design="DESIGN.md section 2, C10",
    ),
    "C11": dict(
        script="checks/c11.py",
        level="exploration",
        text="Round trip: thousands of random events with hostile floating-point values are written exactly as bxdecay0-run writes them and read "
             "back through event_reader; every number must agree to 15 significant digits. Window: small-scope exhaustive - every stream of up to "
             "5 (quick) / 8 (thorough) events, every partition into up to 4 files incl. empty and whitespace-only ones, every (start, max), every "
             "pattern of extra has_next_event() calls - checked against a list-slice model: delivered sequence, announce => load succeeds, empty "
             "window => none announced, idempotence, loaded counter. Repeated in the ASan/UBSan build."
             " Maximal window sizes (INT_MAX), free-form labels up to ~200 characters, all six species, files ending without final newline, the caller's stream left in fixed/scientific/hexadecimal state, abandoned sessions on a long-lived reader.",
        note="Small-scope hypothesis for the window part; labels from the published names.",
        technique="runtime reference-model monitor over recorded reader sessions (list-slice model), exhaustive small scope",
        design="DESIGN.md section 2, C11",
    ),
    "C12": dict(
        script="checks/c12.py",
        level="exploration",
        text="Four monitors. (0) ThreadSanitizer sweep: 2 or 4 threads each walk all 69 background names (branch thresholds steered) and a "
             "sample of double-beta cells in different orders, so that any static object the library writes while generating is written by several "
             "threads; streams from equal tapes must agree across threads. (1) ThreadSanitizer stress: fresh processes x 2/4/16 threads released by a barrier, each with its own generators "
             "(quadrature-heavy modes incl. one whose QNG really returns GSL_ETOL, background, gA), tapes and events; the harness interposes "
             "gsl_set_error_handler(_off)/gsl_integration_qng so that the accesses libgsl makes to its process-wide handler become visible "
             "to TSan through a shadow variable. (2) Deterministic enumeration of every interleaving of the four schedule points (hook in gauss.cc) "
             "of two threads - 70 schedules for one call each, 12870 for two - with trace invariants I1 (handler off while integrating), I2 (handler "
             "restored at quiescence), I3 (process default handler never invoked, with an integrand on which QNG really fails). (3) Every thread's "
             "event stream equals the stream of the same configuration run alone."
             " Every stress configuration is also run alone in a process of its own and every stream of the shared process must equal it; the ThreadSanitizer sweep has a pass in which all threads enter the same configuration together (a barrier: happens-before edges between visits at different times hide races), separate processes for backgrounds and double-beta cells, 16 tapes per steered branch.",
        note="libgsl uninstrumented (shadow variable models its global); interleavings distinguished at hook points and at TSan's happens-before "
             "granularity; blocked schedules (lock) are infeasible, not violations.",
        technique="ThreadSanitizer + deterministic schedule enumeration at hooked yield points with trace-invariant monitors + sequential-equivalence oracle",
        design="DESIGN.md section 2, C12",
    ),
    "C13": dict(
        script="checks/c13.py",
        level="fault_enumeration",
        text="The real bxdecay0-run binary is driven as a black box over generated command lines (all option dimensions, orders and forms, plus "
             "hostile variants). Accepted ones: the event file must be byte-identical to what an API-only renderer (std::default_random_engine -> "
             "std_random -> decay0_generator, as the README shows) produces, two runs identical, companion keys report the settings, @status=0 "
             "present; refused ones: no record, no marker, a diagnostic; a share of them also under ASan/UBSan/libstdc++ assertions. Fault "
             "enumeration: for selected command lines EVERY write() of the fault-free run is once a SIGKILL point and once an ENOSPC and EIO error "
             "(strace inject, firing confirmed in the trace), and '@status=0 => event file complete' is checked after each."
             " Every published nuclide of both list files once per run; NaN MDL angles are refusal cases; the oracle program wraps the engine in its own i_random.",
        note="On-disk state only changes at write(), so syscall granularity is exhaustive for the two files of a command line; the command-line "
             "space itself is sampled.",
        technique="black-box runtime monitor of the CLI with an API-level reference renderer + syscall fault injection (strace) at every write",
        design="DESIGN.md section 2, C13",
    ),
    "C14": dict(
        script="checks/c14.py",
        level="exploration",
        text="Dozens (quick) to hundreds (thorough) of synthetic joint p.d.f. tables - sizes 2..96, flat/peaked/steep/phase-space/zero-tail shapes, "
             "both the shipped 'Test' layout and the documented real layout - are encoded with the repository's own mkocdfdata.py; a monitor compares "
             "every decoded cumulative value with the encoder's exact value within the encoding precision (runs of up to fifteen 9s reached), checks "
             "monotonicity, range and the final 1, samples (u1,u2) on cell boundaries (value, nextafter down/up), tails and random pairs and checks "
             "non-negativity, cell membership, e1+e2 <= dataset maximum, monotonicity in each deviate, and that shoot() on a tape equals the replayed "
             "shoot_e1_e2 + shoot_cos_theta; the rejection method is bound to its range and maximum."
             " Grids ending exactly at the maximum energy sum; a subset of the datasets is read again under a decimal-comma C numeric locale (compiled with localedef) and must decode and sample identically.",
        note="Datasets are synthetic (the real 1.7 GB dataset is not available offline); the encoder script of /repo is trusted as the format's definition.",
        technique="runtime oracle monitor: encoder-side truth vs decoder, cell-membership and monotonicity assertions on sampled deviate pairs",
        design="DESIGN.md section 2, C14",
    ),
    "C15": dict(
        script="checks/c15.py",
        level="exploration",
        text="Coverage-guided fuzzing (libFuzzer + ASan + UBSan, allocation and time limits) of three in-process targets - event_reader over 1-3 "
             "files with start/max, dbd_gA::initialize for both table kinds followed by bounded shots, load_optimized_cdf_array - seeded with the shipped "
             "samples, the Test table, synthetic gA files and a structure-aware mutation pass; after every successful load the monitor applies the "
             "loader's own predicate. Artifacts are re-run alone for triage and keyed target|kind|frames. Catalogue list files: one process per mutated "
             "resource directory (ASan build), outcome must be a clean error or a catalogue satisfying its predicate."
             " Accepted tables are walked again the way the loader walks them (c.d.f. rows: non-decreasing, in [0,1], ending at 1; p.d.f.: no probability beyond the maximum energy sum); a refused table must leave nothing behind (then a valid table on the same object == new object); catalogue runner uses what it loaded (accessors for every enumeration value, also compiled in libstdc++ debug mode); legacy-mode field must be an enumerator.",
        note="Bounded by -runs (2e5 per target quick, 2e7 thorough), not by time; timeouts count as hangs only if they reproduce stand-alone.",
        technique="coverage-guided fuzzing under AddressSanitizer/UndefinedBehaviorSanitizer with predicate monitors",
        design="DESIGN.md section 2, C15",
    ),
    "C16": dict(
        script="checks/c16.py",
        level="exploration",
        text="Each kernel is called on thousands of generated arguments (all monomials x panel counts x intervals, "
             "function families x tolerances, random tables, angles, the (Z,E) grid) and compared with an analytic "
             "oracle written independently in the harness; plain and ASan/UBSan builds. Held-on-observed, not a proof."
             " Golden-section requests down to 1e-7 of the interval (below: recorded finding, witnessed); a value the quadrature wrapper returns without its error message must be within the relaxed tolerance; iterated integrals through nested panel routines; rotation on vectors of scale 1e-30..1e30.",
        note="Trusts libm long double on the oracle side and the closed form of the Fermi function as documented; "
             "quadrature oracle only binds when GSL's QNG itself reports convergence (otherwise the wrapper promises nothing).",
        technique="runtime oracle monitors over generated inputs (analytic reference values), run under ASan+UBSan",
        design="DESIGN.md section 2, C16",
    ),
}

CHECKS["C17"] = dict(
    script="checks/c17.py",
    level="exploration",
    text="Also: the path the UI commands take (DestroyConfiguration, working configuration back to defaults, fields filled one by one), stray double-beta "
         "fields on background requests, and two actions on two threads with a deterministic interleaving (each worker's primaries are its own decay). "
         "The real primary_generator_action.cc, unique_point_vertex_generator.cc and vertex_generator_interface.cc are compiled unmodified "
         "against a recording stand-in for the Geant4 classes they use (particle gun with the real momentum/energy semantics, CLHEP units with "
         "their real values so that a dropped factor is 1e9). Transfer monitor: thousands of events of random valid configurations compared "
         "with the library API on the same engine and seed - one primary per particle, in order, species, momentum vector in MeV, time in "
         "seconds, common vertex from the vertex generator (origin / fixed point / counting generator: exactly one ShootVertex per event). "
         "Validation monitor: a grid of category x nuclide x mode x level x seed; refusal by the action == refusal by the core driver.",
    note="Trusted base: the stand-in's fidelity to Geant4 (Geant4 itself is not installable offline); the adapter code runs unmodified; "
         "messenger classes are replaced by empty stand-ins.",
    technique="runtime monitor of the real adapter against a recording mock of the host framework + reference behaviour of the core driver",
    design="DESIGN.md section 2, C17",
)

NOT_YET = {
}

NOT_APPLICABLE = [
]


def main():
    props = [json.loads(l)["id"] for l in open(os.path.join(VERIF, "properties.jsonl"))]
    hooks = subprocess.run(["git", "-C", "/repo", "log", "--format=%H %s"], stdout=subprocess.PIPE).stdout.decode().splitlines()
    hook_commits = [l.split()[0] for l in hooks if l.split(" ", 1)[1].startswith("verif hook")]
    checks = []
    for pid in props:
        if pid not in CHECKS:
            continue
        c = CHECKS[pid]
        checks.append({
            "property_id": pid,
            "quick_cmd": "%s %s --tier quick" % (PY, c["script"]),
            "thorough_cmd": "%s %s --tier thorough" % (PY, c["script"]),
            "evidence_file": "/verif/evidence/%s.json" % pid,
            "replay_cmd_template": "%s %s --replay {path}" % (PY, c["script"]),
            "engine": c.get("engine", "vlib"),
            "level_claimed": {"category": c["level"], "text": c["text"], "design_ref": c["design"]},
            "level_note": c["note"],
            "technique": c["technique"],
        })
    na = list(NOT_APPLICABLE)
    for pid in props:
        if pid not in CHECKS and pid not in [x["property_id"] for x in na]:
            na.append({"property_id": pid,
                       "reason": NOT_YET.get(pid, "check designed (DESIGN.md section 2) but not built yet in this round; not claimed")})
    m = {
        "version": 1,
        "setup_cmd": "sh tools/setup.sh",
        "hooks": {
            "guard": "BXDECAY0_VERIF",
            "enable": "vlib/build.py configures /repo out of tree with -DCMAKE_CXX_FLAGS='<variant flags> -DBXDECAY0_VERIF' "
                      "(variants plain/asan/tsan/cov/fuzz) into ${VERIF_SCRATCH:-/tmp}/bxverif.<treehash>/",
            "baseline_off_cmd": "sh tools/baseline_off.sh",
            "source_commits": hook_commits,
            "add_only": True,
        },
        "engines": [
            {"name": "vlib", "path": "/verif/vlib", "serves_properties": [c["property_id"] for c in checks],
             "kind_free_text": "Python orchestration (python3-vt) + C++ harness programs in /verif/harness compiled at check "
                               "time against sanitizer/plain builds of /repo's working tree; deviate tape, Fortran reference "
                               "oracle, known-findings matching, evidence writer"},
        ],
        "checks": checks,
        "not_applicable": na,
        "notes": "Every check: exit 0 held on what was observed (KNOWN-FINDING lines allowed), exit 1 + VIOLATION line, "
                 "exit 2 inconclusive (harness failure / watchdog / too few events). Known findings: /verif/known_findings.txt.",
    }
    with open(os.path.join(VERIF, "MANIFEST.json"), "w") as f:
        json.dump(m, f, indent=1)
        f.write("\n")
    try:
        import jsonschema
        jsonschema.validate(m, json.load(open("/root/.vp/MANIFEST.schema.json")))
        print("MANIFEST.json valid: %d checks, %d not_applicable" % (len(checks), len(na)))
    except ImportError:
        print("MANIFEST.json written (jsonschema not available to validate)")


if __name__ == "__main__":
    main()
