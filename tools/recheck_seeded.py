#!/usr/bin/env python3
"""Re-run checks against an already filed seeded change and record the verdicts in its meta.json.
usage: tools/recheck_seeded.py <name> <tier> <check> [...]"""
import json
import os
import subprocess
import sys
import time

VERIF = os.path.dirname(os.path.dirname(os.path.abspath(__file__)))
name, tier, checks = sys.argv[1], sys.argv[2], sys.argv[3:]
d = os.path.join(VERIF, "seeded", name)
meta = json.load(open(os.path.join(d, "meta.json")))
p = subprocess.run(["sh", os.path.join(VERIF, "tools/try_mutant.sh"), os.path.join(d, "patch.diff"), tier] + checks, stdout=subprocess.PIPE, stderr=subprocess.STDOUT)
out = p.stdout.decode(errors="replace")
print(out)
verdicts, cur = {}, None
for ln in out.splitlines():
    if ln.startswith("== "):
        parts = ln.split()
        cur = parts[1]
        verdicts[cur] = {"exit": int(parts[2].split("=")[1]), "violations": int(parts[3].split("=")[1]), "keys": []}
    elif cur and "key=" in ln:
        verdicts[cur]["keys"].append(ln.strip()[:200])
v = meta.setdefault("verification", {})
hist = v.setdefault("rechecks", [])
hist.append({"at": time.strftime("%Y-%m-%d %H:%M:%S"), "tier": tier, "verdicts": verdicts})
caught = set(v.get("caught_by", [])) | {c for c, x in verdicts.items() if x["exit"] == 1}
v["caught_by"] = sorted(caught)
json.dump(meta, open(os.path.join(d, "meta.json"), "w"), indent=1)
print("caught by", v["caught_by"])
