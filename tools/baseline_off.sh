#!/bin/sh
# Runs the repository's own test suite with the verification guard OFF
# (no -DBXDECAY0_VERIF), out of tree, from /repo's current working tree.
set -e
REPO=${VERIF_REPO:-/repo}
B=$(mktemp -d ${VERIF_SCRATCH:-/tmp}/bxverif-baseline.XXXXXX)
trap 'rm -rf "$B"' EXIT
cmake -G Ninja -S "$REPO" -B "$B" -DBUILD_TESTING=ON >"$B/configure.log" 2>&1 || { cat "$B/configure.log"; exit 2; }
cmake --build "$B" -j"$(nproc)" >"$B/build.log" 2>&1 || { tail -50 "$B/build.log"; exit 2; }
ctest --test-dir "$B" -j8 --timeout 900 --output-junit "$B/junit.xml" 2>&1 | tail -30
grep -c '<testcase' "$B/junit.xml" | sed 's/^/testcases: /'
if grep -q 'status="fail"' "$B/junit.xml"; then echo "BASELINE FAILED"; exit 1; fi
if [ -n "$1" ]; then cp "$B/junit.xml" "$1"; fi
echo "BASELINE OK"
