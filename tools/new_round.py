#!/usr/bin/env python3
"""Prepare a round of seeded-change requests: tools/new_round.py <letter>
For each property Cnn: a scratch worktree /tmp/mut/<letter>nn of /repo at HEAD, a copy of the property text next to it and a prompt
(/tmp/mut/prompts/<letter>nn.txt) that names the changes already made for that property (summaries from seeded/*/meta.json) so that the
sub-agent picks another mechanism and place.  Nothing from /verif other than those one-line summaries goes into the prompt."""
import glob
import json
import os
import subprocess
import sys

VERIF = os.path.dirname(os.path.dirname(os.path.abspath(__file__)))
letter = sys.argv[1]
extra = sys.argv[2] if len(sys.argv) > 2 else ""
props = [json.loads(l) for l in open(os.path.join(VERIF, "properties.jsonl"))]
done = {}
files = {}
for m in sorted(glob.glob(os.path.join(VERIF, "seeded/*/meta.json"))):
    d = json.load(open(m))
    pid = d.get("property")
    done.setdefault(pid, []).append((d.get("summary") or "")[:150])
    for f in d.get("files_changed") or []:
        files.setdefault(pid, set()).add(f)
os.makedirs("/tmp/mut/prompts", exist_ok=True)
for p in props:
    n = p["id"][1:]
    name = letter + n
    wt = "/tmp/mut/" + name
    if not os.path.exists(wt):
        subprocess.check_call(["git", "-C", "/repo", "worktree", "add", "--detach", "-f", wt, "HEAD"], stdout=subprocess.DEVNULL, stderr=subprocess.DEVNULL)
    json.dump(p, open(wt + ".property.json", "w"), indent=1)
    earlier = "\n".join("  - " + s for s in done.get(p["id"], []))
    used = ", ".join(sorted(files.get(p["id"], [])))
    txt = f"""You are working in a scratch git worktree of the BxCppDev/bxdecay0 repository at {wt} (a C++ port of the Decay0/GENBB Fortran Monte-Carlo generator of nuclear decays and double-beta decays; the Fortran reference is resources/code/decay0/decay0_2020-04-20.for; README.rst documents the API, the bxdecay0-run program, the MDL post-generation operation, the gA tables; the Geant4 extension is under extensions/). Work ONLY inside {wt}. Never read or touch /repo or /verif. NEVER use `git stash` (it is shared between worktrees); to test without your change: `git diff > mutant/patch.diff; git apply -R mutant/patch.diff; <rebuild, test>; git apply mutant/patch.diff`.

A semantic property of the project is in {wt}.property.json - read it carefully, including its anchors, and read the code it is anchored in.

Task: you are a careful adversary. Make ONE small, realistic change (the kind of slip or 'harmless clean-up' a maintainer could commit: an off-by-one, a wrong constant, a dropped or weakened guard, a reordered statement, a copy-paste of a neighbouring line, a wrong variable of the same type, a changed default, a boundary condition, a unit) that BREAKS this property while the project still compiles and the existing test suite still passes:
   cmake -G Ninja -S {wt} -B {wt}/_b -DBUILD_TESTING=ON && cmake --build {wt}/_b -j6 && ctest --test-dir {wt}/_b -j6
The change must need something specific to manifest (a particular nuclide/level/mode/window/deviate value/call sequence/file content/thread timing/command line) - say exactly what - and must leave ordinary use looking normal. Choose something a verifier could plausibly overlook: a rarely exercised corner of the property's quantifier (read the "quantifier" field: the property must hold for ALL of those), a second-order effect, an interaction between two features. Do NOT repeat any of these changes, which were already made by others (pick a different mechanism and a different place; prefer a part of the anchored code none of them touches). Earlier adversaries found that verifiers tend to miss: objects re-used or re-configured without reset, one-sided or NaN parameters, debug/verbosity switches, published alias names, rarely combined options, state left by FAILED operations, first calls racing, results that stay plausible (only a ratio, a time, an angle or a rarely reached branch changes), several instances of one feature combined (two operations, two windows, two files), extreme but legal integer or floating-point parameters, capacity limits of fixed-size tables, rarely used documented entry modes of an API, and paths that only the UI/command layer takes. Those have now been hardened; look for something else again.{extra} Files already used by earlier changes for this property (prefer another file or a clearly different function): {used}. Already done:
{earlier}

Deliver in {wt}/mutant/: patch.diff (git diff of the sources), demo.cc + demo.sh (public API; a deterministic bxdecay0::i_random of your own; exits non-zero WITH the change and 0 WITHOUT it; link -L{wt}/_b -lBxDecay0 -lgsl -lgslcblas, include -I{wt} -I{wt}/_b, env BXDECAY0_RESOURCE_DIR={wt}/resources LD_LIBRARY_PATH={wt}/_b), and meta.json {{"property":"{p['id']}","summary":"...","needs_to_manifest":"...","files_changed":[...]}}. Verify both directions yourself with a rebuild each way (demo fails with the change, passes without). Leave the change applied (do not commit). If, while reading, you notice something in the UNCHANGED code that already violates the property, add a line "side_finding" to meta.json describing it (input and effect). Report back a 5-line summary."""
    open("/tmp/mut/prompts/%s.txt" % name, "w").write(txt)
    print(name, len(done.get(p["id"], [])), "earlier changes")
