#!/usr/bin/env python3
"""Confirm a seeded change produced by a sub-agent and file it under /verif/seeded/<name>/.
usage: tools/keep_mutant.py <name> <worktree> <tier> <check> [<check> ...]
Steps (all in the scratch worktree, never in /repo except through try_mutant.sh which undoes itself):
  1. with the change: build, the repository's 19 tests pass, demo.sh exits non-zero
  2. change stashed: rebuild, demo.sh exits 0; change restored
  3. run the named checks against a scratch worktree of /repo with the patch applied (tools/try_mutant.sh; /repo itself is not touched)
"""
import json
import os
import shutil
import subprocess
import sys
import time

name, wt, tier = sys.argv[1], sys.argv[2], sys.argv[3]
checks = sys.argv[4:]
VERIF = os.path.dirname(os.path.dirname(os.path.abspath(__file__)))


def sh(cmd, cwd=None, timeout=3600):
    p = subprocess.run(cmd, shell=True, cwd=cwd, stdout=subprocess.PIPE, stderr=subprocess.STDOUT, timeout=timeout)
    return p.returncode, p.stdout.decode(errors="replace")


def build_and_test():
    rc, out = sh("cmake -G Ninja -S %s -B %s/_b -DBUILD_TESTING=ON >/dev/null && cmake --build %s/_b -j16 2>&1 | tail -3" % (wt, wt, wt))
    if rc != 0:
        return False, "build failed: " + out[-500:]
    rc, out = sh("ctest --test-dir %s/_b -j8 --timeout 900 2>&1 | tail -4" % wt)
    return ("100% tests passed" in out), out[-300:]


m = os.path.join(wt, "mutant")
patch = os.path.join(m, "patch.diff")
meta = json.load(open(os.path.join(m, "meta.json")))
rec = {"confirmed_at": time.strftime("%Y-%m-%d %H:%M:%S"), "steps": []}
ok, msg = build_and_test()
rec["steps"].append({"with_change_build_and_19_tests": ok, "detail": msg[-200:]})
rc1, out1 = sh("bash %s/demo.sh" % m, cwd=m)
rec["steps"].append({"demo_with_change_exit": rc1, "tail": out1[-300:]})
sh("git apply -R %s" % patch, cwd=wt)   # (git stash is shared between worktrees: never use it here)
ok2, msg2 = build_and_test()
rc0, out0 = sh("bash %s/demo.sh" % m, cwd=m)
rec["steps"].append({"without_change_build_and_tests": ok2, "demo_without_change_exit": rc0, "tail": out0[-200:]})
sh("git apply %s" % patch, cwd=wt)
confirmed = ok and ok2 and rc1 != 0 and rc0 == 0
rec["confirmed"] = confirmed
print("confirmed" if confirmed else "NOT CONFIRMED", json.dumps(rec["steps"])[:600])
rc, out = sh("sh %s/tools/try_mutant.sh %s %s %s" % (VERIF, patch, tier, " ".join(checks)), cwd=VERIF, timeout=4 * 3600)
print(out)
verdicts = {}
cur = None
for ln in out.splitlines():
    if ln.startswith("== "):
        parts = ln.split()
        cur = parts[1]
        verdicts[cur] = {"exit": int(parts[2].split("=")[1]), "violations": int(parts[3].split("=")[1]), "keys": []}
    elif cur and "key=" in ln:
        verdicts[cur]["keys"].append(ln.strip()[:200])
rec["checks_run"] = {"tier": tier, "verdicts": verdicts}
rec["caught_by"] = [c for c, v in verdicts.items() if v["exit"] == 1]
if confirmed:
    d = os.path.join(VERIF, "seeded", name)
    os.makedirs(d, exist_ok=True)
    for f in os.listdir(m):
        if os.path.isfile(os.path.join(m, f)) and os.path.getsize(os.path.join(m, f)) < 2000000 and not f.endswith((".o", ".so")) and os.access(os.path.join(m, f), os.R_OK):
            if f in ("demo", "a.out") or f.endswith(".bin"):
                continue
            shutil.copy(os.path.join(m, f), os.path.join(d, f))
    meta["verification"] = rec
    json.dump(meta, open(os.path.join(d, "meta.json"), "w"), indent=1)
    print("filed under", d, "caught by", rec["caught_by"])
