#!/bin/sh
# Runs every check's quick (or thorough) command in sequence and prints one line per check.
# usage: tools/run_all.sh [quick|thorough] [seed]
cd "$(dirname "$0")/.."
TIER=${1:-quick}
SEED=${2:-1}
for c in 01 02 03 04 05 06 07 08 09 10 11 12 13 14 15 16 17; do
  s=$(date +%s)
  VERIF_SEED=$SEED python3-vt checks/c$c.py --tier $TIER > /tmp/verif_run_c$c.log 2>&1
  rc=$?
  e=$(date +%s)
  echo "C$c rc=$rc $((e-s))s $(grep -c '^VIOLATION' /tmp/verif_run_c$c.log) violations; $(tail -1 /tmp/verif_run_c$c.log | cut -c1-150)"
done
