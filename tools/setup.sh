#!/bin/sh
# Run once after a fresh restore, offline. Verifies the toolchain and pre-builds the two
# most used variants of /repo (not required: every check rebuilds what it needs).
cd "$(dirname "$0")/.."
fail=0
for t in python3-vt g++ gfortran-12 clang++-14 cmake ninja strace valgrind git; do
  command -v $t >/dev/null 2>&1 || { echo "setup: missing tool $t"; fail=1; }
done
python3-vt -c "import jsonschema" || { echo "setup: python3-vt lacks jsonschema"; fail=1; }
[ -f /usr/include/gsl/gsl_integration.h ] || { echo "setup: GSL headers missing"; fail=1; }
[ $fail = 0 ] || exit 1
mkdir -p evidence replays
python3-vt -m vlib.build plain asan || exit 1
echo "setup ok"
