#!/bin/sh
# Run the given checks against a seeded change WITHOUT touching /repo's working tree: the change is applied to a scratch worktree of
# /repo's HEAD (plus /repo's uncommitted changes, if any) and the checks are pointed at it through VERIF_REPO.  (/repo's working tree is
# what background `vp run`s read: applying a seeded change there while one is running contaminates it.)
# usage: tools/try_mutant.sh <patch.diff> <tier> C03 [C02 ...]
P=$1; TIER=$2; shift 2
cd "$(dirname "$0")/.."
W=$(mktemp -d /tmp/mutrepo.XXXXXX)
rmdir "$W"
git -C /repo worktree add --detach -f "$W" HEAD > /dev/null 2>&1 || { echo "cannot create scratch worktree"; exit 2; }
trap 'git -C /repo worktree remove --force "$W" > /dev/null 2>&1; rm -rf "$W"; git -C /repo worktree prune' EXIT
if ! git -C /repo diff --quiet; then git -C /repo diff | git -C "$W" apply || { echo "cannot carry /repo's uncommitted changes over"; exit 2; }; fi
git -C "$W" apply "$P" || { echo "patch does not apply"; exit 2; }
VERIF_REPO=$W; export VERIF_REPO
# the evidence of a run against a seeded change must never replace the evidence of the real tree
VERIF_EVIDENCE_DIR=$(mktemp -d /tmp/mutant_evidence.XXXXXX); export VERIF_EVIDENCE_DIR
for c in "$@"; do
  n=$(echo $c | tr -d C)
  python3-vt checks/c$n.py --tier $TIER > /tmp/mutant_$c.$$.log 2>&1
  rc=$?
  echo "== $c rc=$rc violations=$(grep -c '^VIOLATION' /tmp/mutant_$c.$$.log)"
  grep -A1 '^VIOLATION' /tmp/mutant_$c.$$.log | grep 'key=' | head -4 | cut -c1-260
  rm -f /tmp/mutant_$c.$$.log
done
rm -rf "$VERIF_EVIDENCE_DIR"
