#!/bin/sh
# Apply a seeded change to /repo, run the given checks (quick), undo the change.
# usage: tools/try_mutant.sh <patch.diff> <tier> C03 [C02 ...]
P=$1; TIER=$2; shift 2
cd "$(dirname "$0")/.."
git -C /repo diff --quiet || { echo "repo working tree is not clean"; exit 2; }
git -C /repo apply "$P" || { echo "patch does not apply"; exit 2; }
trap 'git -C /repo checkout -- . ; git -C /repo clean -fdq -- bxdecay0 programs extensions resources' EXIT
# the evidence of a run against a seeded change must never replace the evidence of the real tree
VERIF_EVIDENCE_DIR=$(mktemp -d /tmp/mutant_evidence.XXXXXX); export VERIF_EVIDENCE_DIR
for c in "$@"; do
  n=$(echo $c | tr -d C)
  python3-vt checks/c$n.py --tier $TIER > /tmp/mutant_$c.log 2>&1
  rc=$?
  echo "== $c rc=$rc violations=$(grep -c '^VIOLATION' /tmp/mutant_$c.log)"
  grep -A1 '^VIOLATION' /tmp/mutant_$c.log | grep 'key=' | head -4 | cut -c1-260
done
rm -rf "$VERIF_EVIDENCE_DIR"
