"""Knowledge about the published names that is NOT taken from the code under test:
list files, README appendix, reference source (parsed at check time from /repo)."""
import os
import re

from .common import REPO

REF_SRC = os.path.join(REPO, "resources/code/decay0/decay0_2020-04-20.for")


def lis(name):
    p = os.path.join(REPO, "resources/description", name)
    out = []
    for ln in open(p):
        ln = ln.strip()
        if ln and not ln.startswith("#"):
            out.append(ln)
    return out


def background_names():
    return lis("background_isotopes.lis")


def dbd_names():
    return lis("dbd_isotopes.lis")


_ref_lines = None


def ref_lines():
    global _ref_lines
    if _ref_lines is None:
        _ref_lines = open(REF_SRC, encoding="latin-1").read().split("\n")
    return _ref_lines


def ref_subroutine(name):
    """Source lines of `subroutine <name>(` in the reference (case-insensitive)."""
    L = ref_lines()
    pat = re.compile(r"^\s+subroutine\s+%s\s*\(" % re.escape(name), re.I)
    for i, l in enumerate(L):
        if pat.match(l):
            j = i + 1
            while j < len(L) and not re.match(r"^\s+end\s*$", L[j]):
                j += 1
            return L[i:j + 1]
    return []


def scheme_file(part):
    """bxdecay0/<X>.cc for a nuclide part such as 'Ta180m-B-' or 'Bi212'."""
    want = re.sub(r"[^A-Za-z0-9]", "", part).lower()
    d = os.path.join(REPO, "bxdecay0")
    for fn in os.listdir(d):
        if fn.endswith(".cc") and fn[:-3].lower() == want:
            return os.path.join(d, fn)
    return None


NUM = r"([0-9]*\.?[0-9]+(?:[eE][-+]?[0-9]+)?)"


def _sources(part):
    srcs = []
    f = scheme_file(part)
    if f:
        srcs.append(open(f, encoding="latin-1").read())
    sub = ref_subroutine(re.sub(r"[^A-Za-z0-9]", "", part))
    if sub:
        # join continuation lines of the fixed-form source
        txt = ""
        for l in sub:
            if l[:1] in "cC*!":
                continue
            if re.match(r"^     \S", l) or re.match(r"^\t\d", l):
                txt += " " + l[6:].split("!")[0]
            else:
                txt += "\n" + l.split("!")[0]
        srcs.append(txt)
    return srcs


def harvest_thresholds(parts):
    """Literals c of `p.. <= c` (port) and `p...le.c` (reference) for the given scheme names,
    mapped into (0,1): c/100 for percent cascades, and c itself when below 1."""
    vals = set()
    for part in parts:
        srcs = []
        f = scheme_file(part)
        if f:
            srcs.append(open(f, encoding="latin-1").read())
        sub = ref_subroutine(re.sub(r"[^A-Za-z0-9]", "", part))
        if sub:
            srcs.append("\n".join(l for l in sub if l[:1] not in "cC*!"))
        for s in srcs:
            for m in re.finditer(r"\bp\w*\s*<=?\s*" + NUM, s):
                vals.add(float(m.group(1)))
            for m in re.finditer(r"\bp\w*\s*\.l[et]\.\s*" + NUM, s, re.I):
                vals.add(float(m.group(1)))
    out = set()
    # conversion-coefficient branch points of nucltransK/KL/KLM(_Pb) calls: the first deviate u of such a
    # call selects gamma / K / L / M / pair at cumulative fractions of (1 + sum of coefficients)
    for part in parts:
        for s in _sources(part):
            for m in re.finditer(r"nucltrans(KLM_Pb|KLM|KL|K)\s*\(([^;]*?)\)\s*;?", s, re.I | re.S):
                kind = m.group(1).upper()
                args = [a.strip() for a in m.group(2).replace("\n", " ").split(",")]
                args = [a for a in args if a not in ("prng_", "event_")]
                try:
                    nums = [float(a.replace("d", "e").replace("D", "e")) for a in args[:{"K": 4, "KL": 6, "KLM": 8, "KLM_PB": 8}[kind]]]
                except ValueError:
                    continue
                if kind == "K":
                    cs = [nums[2], nums[3]]
                elif kind == "KL":
                    cs = [nums[2], nums[4], nums[5]]
                else:
                    cs = [nums[2], nums[4], nums[6], nums[7]]
                tot = 1.0 + sum(cs)
                acc = 1.0
                out.add(acc / tot)
                for c in cs[:-1]:
                    acc += c
                    out.add(acc / tot)
    out = set(v for v in out if 0 < v < 1)
    for c in vals:
        if 0 < c < 100:
            out.add(c / 100.0)
        if 0 < c < 1:
            out.add(c)
    return sorted(out)


# daughters / helper schemes whose thresholds matter for a published name
EXTRA_PARTS = {
    "Bi207": ["PbAtShell"],
    "Bi212": ["Po212"], "Bi214": ["Po214"], "Ca48": ["Sc48"], "Zr96": ["Nb96"],
    "Po218": ["Rn218", "Po214"], "Rn222": ["Ra222", "Rn218", "Po214"],
}


def parts_of(name):
    parts = [p for p in name.split("+") if p]
    base = parts[0]
    for e in EXTRA_PARTS.get(base, []):
        if e not in parts:
            parts.append(e)
    return parts


# ---------------------------------------------------------------------------------------------
# Tables parsed at check time from sources that are NOT the code under test
# ---------------------------------------------------------------------------------------------
def ref_dbd_table():
    """Per double-beta isotope from the reference's GENBBsub: Qbb, Zdbb, Adbb, EK, levels
    {ilevel: keV}, spin {ilevel: 0|2}, and the quadruple-beta override (Qbb, Zdbb) if any."""
    L = ref_lines()
    start = next(i for i, l in enumerate(L) if re.match(r"^\s+subroutine GENBBsub\(", l))
    end = next(i for i in range(start, len(L)) if re.match(r"^\s+if\(i2bbs\.eq\.2\) then", L[i]) and i > start + 500)
    # join continuation lines, drop comments
    stm = []
    for l in L[start:end]:
        if l[:1] in "cC*!" or not l.strip():
            continue
        if re.match(r"^     \S", l) and not re.match(r"^     \s", l):
            stm[-1] += l[6:].strip()
        else:
            stm.append(l.strip())
    table = {}
    cur = None
    in4b = False
    for s in stm:
        s = s.replace(" ", "")
        m = re.match(r"chnuclide='(\w+)'", s)
        if m:
            cur = table.setdefault(m.group(1), {"levels": {}, "spin": {}, "q4b": None})
            in4b = False
            continue
        if cur is None:
            continue
        if s.startswith("if(modebb.eq.20)then"):
            in4b = True
            cur["q4b"] = {}
            continue
        if in4b:
            if s.startswith("endif"):
                in4b = False
                continue
            m = re.match(r"(Qbb|Zdbb)=([-0-9.]+)", s)
            if m:
                cur["q4b"][m.group(1)] = float(m.group(2))
            continue
        m = re.match(r"(Qbb|Zdbb|Adbb|EK)=([-0-9.]+)", s)
        if m and m.group(1) not in cur:
            cur[m.group(1)] = float(m.group(2))
            continue
        m = re.match(r"if\(ilevel\.eq\.(\d+)\)levelE=(\d+)", s)
        if m:
            cur["levels"][int(m.group(1))] = int(m.group(2))
            continue
        if s.startswith("levelE="):
            cur["levels"][0] = int(s.split("=")[1])
            continue
        m = re.match(r"if\(ilevel\.ge\.(\d+)\.and\.ilevel\.le\.(\d+)\)EK=([0-9.]+)", s)
        if m:
            for lv in range(int(m.group(1)), int(m.group(2)) + 1):
                cur.setdefault("EK_level", {})[lv] = float(m.group(3))
            continue
        m = re.match(r"if\(ilevel\.eq\.(\d+)\)EK=([0-9.]+)", s)
        if m:
            cur.setdefault("EK_level", {})[int(m.group(1))] = float(m.group(2))
            continue
        m = re.match(r"if\((.*)\)itrans02=(\d)", s)
        if m:
            for lv in re.findall(r"ilevel\.eq\.(\d+)", m.group(1)):
                cur["spin"][int(lv)] = int(m.group(2))
            continue
        m = re.match(r"itrans02=(\d)", s)
        if m:
            cur["spin"][0] = int(m.group(1))
    # keep only genuine double-beta blocks
    for v in table.values():
        if v["q4b"] is not None and "Qbb" not in v["q4b"]:
            v["q4b"] = None
    return {k: v for k, v in table.items() if "Qbb" in v}


def readme_text():
    return open(os.path.join(REPO, "README.rst"), encoding="utf-8").read()


def _readme_section(title):
    t = readme_text()
    i = t.index(title)
    rest = t[i + len(title):]
    m = re.search(r"\n[^\n]+\n[-=~]{6,}\n", rest[10:])
    return rest[: (m.start() + 10) if m else len(rest)]


def readme_bullets(title):
    """[(name, annotation)] from a README appendix bullet list such as ``* ``Bi214`` (for ``Bi214+At214``)``."""
    out = []
    for ln in _readme_section(title).split("\n"):
        m = re.match(r"^\*\s+``([^`]+)``\s*(.*)$", ln.strip())
        if m:
            ann = re.findall(r"``([^`]+)``", m.group(2))
            out.append((m.group(1), ann[0] if ann and "for" in m.group(2) else None))
    return out


def readme_dbd_levels():
    """{isotope: [(index, spin_text, MeV)]} from 'List of daughter nucleus excited states'."""
    sec = _readme_section("List of daughter nucleus excited states in double beta decay")
    out = {}
    cur = None
    for ln in sec.split("\n"):
        m = re.match(r"^\*\s+``(\w+)``\s*->", ln.strip())
        if m:
            cur = out.setdefault(m.group(1), [])
            continue
        m = re.match(r"^\s*(\d+)\.\s+(\S+)\s*(?:\([^)]*\))?\s*[{(]([0-9.]+)\s*MeV[})]", ln)
        if m and cur is not None:
            cur.append((int(m.group(1)), m.group(2), float(m.group(3))))
    return out
