"""Knowledge about the published names that is NOT taken from the code under test:
list files, README appendix, reference source (parsed at check time from /repo)."""
import os
import re

from .common import REPO

REF_SRC = os.path.join(REPO, "resources/code/decay0/decay0_2020-04-20.for")


def lis(name):
    p = os.path.join(REPO, "resources/description", name)
    out = []
    for ln in open(p):
        ln = ln.strip()
        if ln and not ln.startswith("#"):
            out.append(ln)
    return out


def background_names():
    return lis("background_isotopes.lis")


def dbd_names():
    return lis("dbd_isotopes.lis")


_ref_lines = None


def ref_lines():
    global _ref_lines
    if _ref_lines is None:
        _ref_lines = open(REF_SRC, encoding="latin-1").read().split("\n")
    return _ref_lines


def ref_subroutine(name):
    """Source lines of `subroutine <name>(` in the reference (case-insensitive)."""
    L = ref_lines()
    pat = re.compile(r"^\s+subroutine\s+%s\s*\(" % re.escape(name), re.I)
    for i, l in enumerate(L):
        if pat.match(l):
            j = i + 1
            while j < len(L) and not re.match(r"^\s+end\s*$", L[j]):
                j += 1
            return L[i:j + 1]
    return []


def scheme_file(part):
    """bxdecay0/<X>.cc for a nuclide part such as 'Ta180m-B-' or 'Bi212'."""
    want = re.sub(r"[^A-Za-z0-9]", "", part).lower()
    d = os.path.join(REPO, "bxdecay0")
    for fn in os.listdir(d):
        if fn.endswith(".cc") and fn[:-3].lower() == want:
            return os.path.join(d, fn)
    return None


NUM = r"([0-9]*\.?[0-9]+(?:[eE][-+]?[0-9]+)?)"


def _sources(part):
    srcs = []
    f = scheme_file(part)
    if f:
        srcs.append(open(f, encoding="latin-1").read())
    sub = ref_subroutine(re.sub(r"[^A-Za-z0-9]", "", part))
    if sub:
        # join continuation lines of the fixed-form source
        txt = ""
        for l in sub:
            if l[:1] in "cC*!":
                continue
            if re.match(r"^     \S", l) or re.match(r"^\t\d", l):
                txt += " " + l[6:].split("!")[0]
            else:
                txt += "\n" + l.split("!")[0]
        srcs.append(txt)
    return srcs


def harvest_thresholds(parts):
    """Literals c of `p.. <= c` (port) and `p...le.c` (reference) for the given scheme names,
    mapped into (0,1): c/100 for percent cascades, and c itself when below 1."""
    vals = set()
    for part in parts:
        srcs = []
        f = scheme_file(part)
        if f:
            srcs.append(open(f, encoding="latin-1").read())
        sub = ref_subroutine(re.sub(r"[^A-Za-z0-9]", "", part))
        if sub:
            srcs.append("\n".join(l for l in sub if l[:1] not in "cC*!"))
        for s in srcs:
            for m in re.finditer(r"\bp\w*\s*<=?\s*" + NUM, s):
                vals.add(float(m.group(1)))
            for m in re.finditer(r"\bp\w*\s*\.l[et]\.\s*" + NUM, s, re.I):
                vals.add(float(m.group(1)))
    out = set()
    # conversion-coefficient branch points of nucltransK/KL/KLM(_Pb) calls: the first deviate u of such a
    # call selects gamma / K / L / M / pair at cumulative fractions of (1 + sum of coefficients)
    for part in parts:
        for s in _sources(part):
            for m in re.finditer(r"nucltrans(KLM_Pb|KLM|KL|K)\s*\(([^;]*?)\)\s*;?", s, re.I | re.S):
                kind = m.group(1).upper()
                args = [a.strip() for a in m.group(2).replace("\n", " ").split(",")]
                args = [a for a in args if a not in ("prng_", "event_")]
                try:
                    nums = [float(a.replace("d", "e").replace("D", "e")) for a in args[:{"K": 4, "KL": 6, "KLM": 8, "KLM_PB": 8}[kind]]]
                except ValueError:
                    continue
                if kind == "K":
                    cs = [nums[2], nums[3]]
                elif kind == "KL":
                    cs = [nums[2], nums[4], nums[5]]
                else:
                    cs = [nums[2], nums[4], nums[6], nums[7]]
                tot = 1.0 + sum(cs)
                acc = 1.0
                out.add(acc / tot)
                for c in cs[:-1]:
                    acc += c
                    out.add(acc / tot)
    out = set(v for v in out if 0 < v < 1)
    for c in vals:
        if 0 < c < 100:
            out.add(c / 100.0)
        if 0 < c < 1:
            out.add(c)
    return sorted(out)


# daughters / helper schemes whose thresholds matter for a published name
EXTRA_PARTS = {
    "Bi207": ["PbAtShell"],
    "Bi212": ["Po212"], "Bi214": ["Po214"], "Ca48": ["Sc48"], "Zr96": ["Nb96"],
    "Po218": ["Rn218", "Po214"], "Rn222": ["Ra222", "Rn218", "Po214"],
}


def parts_of(name):
    parts = [p for p in name.split("+") if p]
    base = parts[0]
    for e in EXTRA_PARTS.get(base, []):
        if e not in parts:
            parts.append(e)
    return parts
