"""Driver for harness/gen_monitor.cc (C03, C04, C08)."""
import json
import os
import tempfile

from . import build, schemes
from .common import NCPU, Rng, pmap, run

ZERO_NU = {1, 2, 3, 7, 9, 11, 17, 18, 20}          # neutrinoless modes: visible energy == Q
WINDOW_MODES = {4, 5, 6, 8, 10, 13, 14, 15, 16, 19}
EXPENSIVE = {4, 5, 6, 8, 13, 14, 15, 16, 19}
CHAIN = {"Bi214", "Pb214", "Po218", "Rn222"}
EMASS = 0.51099906


def spin_ok(mode, spin):
    if spin == 0:
        return mode in (1, 2, 3, 4, 5, 6, 9, 10, 11, 12, 13, 14, 15, 17, 18, 19, 20)
    if spin == 2:
        return mode in (3, 7, 8, 9, 10, 11, 12, 16)
    return False


def rule_accepts(table, name, level, mode):
    """The reference rules of C06 for modes 1..20 (no window), from the parsed reference table."""
    t = table.get(name)
    if t is None or level not in t["levels"] or not (1 <= mode <= 20):
        return False
    spin = t["spin"].get(level)
    Q, Z, EK = t["Qbb"], t["Zdbb"], t.get("EK_level", {}).get(level, t["EK"])
    if mode == 20:
        if t["q4b"] is None or level != 0:
            return False
        Q, Z = t["q4b"]["Qbb"], t["q4b"].get("Zdbb", Z)
    El = t["levels"][level] / 1000.0
    e0 = Q if Z >= 0 else Q - 4 * EMASS
    if mode in (9, 10):
        e0 = Q - EK - 2 * EMASS
    if mode in (11, 12):
        e0 = Q - 2 * EK
    if e0 <= El:
        return False
    if spin is None or not spin_ok(mode, spin):
        return False
    if Z >= 0 and mode in (9, 10, 11, 12):
        return False
    return True


def e0_of(table, name, level, mode):
    """Energy available to the leptons (MeV) by the reference's formulas."""
    t = table[name]
    Q, Z, EK = t["Qbb"], t["Zdbb"], t.get("EK_level", {}).get(level, t["EK"])
    if mode == 20 and t["q4b"]:
        Q, Z = t["q4b"]["Qbb"], t["q4b"].get("Zdbb", Z)
    El = t["levels"][level] / 1000.0
    e0 = (Q if Z >= 0 else Q - 4 * EMASS) - El
    if mode in (9, 10):
        e0 = Q - El - EK - 2 * EMASS
    if mode in (11, 12):
        e0 = Q - El - 2 * EK
    return e0


def q_of(table, name, mode):
    t = table[name]
    if mode == 20 and t["q4b"]:
        return t["q4b"]["Qbb"]
    return t["Qbb"]


_thr_cache = {}
PARAMWATCH = [0]   # nuclear-transition calls whose arguments went through the parameter monitor (harness/paramwatch.h)
TABLEWRAP = [0]   # kernel calls that went through the table interposer of the sanitizer builds (harness/tablewrap.h)


def daughter_thresholds(name):
    """Branching thresholds (in (0,1)) of the de-excitation scheme of the double-beta daughter of `name` (steering hints only)."""
    if name not in _thr_cache:
        import glob
        import re
        a = re.sub(r"^[A-Za-z]+", "", name)
        parts = [os.path.basename(f)[:-3] for f in glob.glob(os.path.join(build.REPO, "bxdecay0", "*%slow.cc" % a))
                 if re.match(r"^[A-Z][a-z]?%slow\.cc$" % a, os.path.basename(f))]
        parts += schemes.EXTRA_PARTS.get(name, [])
        _thr_cache[name] = schemes.harvest_thresholds(parts) if parts else []
    return _thr_cache[name]


def dbd_line(table, name, level, mode, window=None, tol=0.003, work_bound=0):
    # a window limit given as None is left undefined (NaN) in the request: one-sided window (spec encoding -999)
    e1, e2, w = (-999.0 if window[0] is None else window[0], -999.0 if window[1] is None else window[1], 1) if window else (0.0, 4.3, 0)
    Q = q_of(table, name, mode)
    thr = daughter_thresholds(name) if level > 0 or name in schemes.EXTRA_PARTS else []
    return "D %s %d %d %.17g %.17g %d %.17g %d %d %.17g %d%s" % (
        name, level, mode, e1, e2, w, Q, 1 if mode in ZERO_NU else 0, 1 if name in CHAIN else 0, tol, work_bound,
        (" T " + " ".join("%.17g" % t for t in thr)) if thr else "")


def run_specs(variant, lines, seed, n_iid, n_grid, hostile, timeout=7200, nshards=None, extra_env=None, deep_events=0):
    """Returns (records, failures) where failures is a list of (shard, rc, stderr tail)."""
    exe = build.harness(variant, "gen_monitor", ["gen_monitor.cc"], extra_flags="-rdynamic", libs="-ldl")
    spec = tempfile.NamedTemporaryFile("w", suffix=".spec", delete=False, dir=build.variant_dir(variant))
    spec.write("\n".join(lines) + "\n")
    spec.close()
    nshards = nshards or min(len(lines), NCPU * 4)

    def one(shard):
        cmd = [exe, spec.name, str(seed), str(n_iid), str(n_grid), "1" if hostile else "0", str(shard), str(nshards), str(deep_events)]
        return (shard,) + run(cmd, timeout=timeout, env=build.lib_env(variant, extra_env))

    res = pmap(one, list(range(nshards)), jobs=NCPU)
    os.unlink(spec.name)
    records, failures = [], []
    for shard, rc, out, err in res:
        for ln in out.splitlines():
            if ln.startswith("{"):
                try:
                    rec = json.loads(ln)
                    if "paramwatch_transition_calls" in rec:
                        PARAMWATCH[0] += rec["paramwatch_transition_calls"]
                        continue
                    if "tablewrap_divdif_calls" in rec:
                        TABLEWRAP[0] += rec["tablewrap_divdif_calls"]
                        continue
                    records.append(rec)
                except ValueError:
                    failures.append((shard, rc, "unparsable line: " + ln[:200]))
        if rc != 0:
            # keep the head of the first sanitizer report (its kind and frames) as well as the tail
            i = err.find("ERROR: AddressSanitizer")
            if i < 0:
                i = err.find("runtime error:")
            if i < 0:
                i = err.find("Assertion '")
            head = err[max(0, i - 200): i + 2500] if i >= 0 else ""
            failures.append((shard, rc, (head + "\n...\n" if head else "") + err[-1500:]))
    return exe, records, failures
