"""Reach of a workload: line/branch/function coverage of libBxDecay0 measured with gcov (variant 'cov').

Coverage decides nothing; it is recorded in the evidence so that a reader can see which parts of which decay
scheme the monitors actually watched, and which they never saw.
"""
import glob
import gzip
import json
import os
import shutil
import tempfile

from . import build
from .common import NCPU, REPO, pmap, run


def _collect(prefix, bdir):
    """Run gcov over every .gcda below prefix (the .gcno files live in bdir); returns per-source-file sets."""
    gcdas = glob.glob(os.path.join(prefix, "**", "*.gcda"), recursive=True)
    jobs = []
    for g in gcdas:
        rel = os.path.relpath(g, prefix)              # abs path of the object dir, minus leading '/'
        gcno = "/" + rel[:-5] + ".gcno"
        if not os.path.exists(gcno):
            continue
        dst = g[:-5] + ".gcno"
        if not os.path.exists(dst):
            os.symlink(gcno, dst)
        jobs.append(g)

    def one(g):
        rc, out, err = run(["gcov-12", "-b", "-c", "--json-format", "--stdout", g], timeout=300, cwd=os.path.dirname(g))
        docs = []
        for ln in out.splitlines():
            ln = ln.strip()
            if ln.startswith("{"):
                try:
                    docs.append(json.loads(ln))
                except ValueError:
                    pass
        return docs

    files = {}
    for docs in pmap(one, jobs, jobs=NCPU):
        for d in docs:
            for f in d.get("files", []):
                name = f["file"]
                if not os.path.isabs(name):
                    name = os.path.normpath(os.path.join(d.get("current_working_directory", ""), name))
                if not name.startswith(os.path.join(REPO, "bxdecay0") + "/"):
                    continue
                ent = files.setdefault(os.path.relpath(name, REPO), {"lines": {}, "branches": {}, "functions": {}})
                for l in f.get("lines", []):
                    n = l["line_number"]
                    ent["lines"][n] = ent["lines"].get(n, 0) + l["count"]
                    for bi, b in enumerate(l.get("branches", [])):
                        if b.get("throw"):
                            continue      # exceptional edges of calls: not decisions of the scheme
                        k = (n, bi)
                        ent["branches"][k] = ent["branches"].get(k, 0) + b["count"]
                for fn in f.get("functions", []):
                    ent["functions"][fn["demangled_name"]] = ent["functions"].get(fn["demangled_name"], 0) + fn["execution_count"]
    return files


def summarise(files, worst=12):
    tl = tb = el = eb = 0
    per = []
    never = []
    for name, ent in sorted(files.items()):
        if not name.endswith(".cc"):
            continue
        nl, nb = len(ent["lines"]), len(ent["branches"])
        xl = sum(1 for c in ent["lines"].values() if c > 0)
        xb = sum(1 for c in ent["branches"].values() if c > 0)
        tl, tb, el, eb = tl + nl, tb + nb, el + xl, eb + xb
        per.append((name, nl, xl, nb, xb))
        never += ["%s: %s" % (name, fn) for fn, c in ent["functions"].items() if c == 0]
    per_reached = [p for p in per if p[2] > 0]
    per_reached.sort(key=lambda p: (p[2] / max(1, p[1])))
    return {
        "source_files": len(per),
        "source_files_reached": len(per_reached),
        "source_files_never_reached": [p[0] for p in per if p[2] == 0],
        "lines": {"total": tl, "executed": el, "percent": round(100.0 * el / max(1, tl), 2)},
        "branch_outcomes": {"total": tb, "taken": eb, "percent": round(100.0 * eb / max(1, tb), 2)},
        "files_fully_line_covered": sum(1 for p in per if p[1] and p[1] == p[2]),
        "least_covered_reached_files": [{"file": p[0], "lines": "%d/%d" % (p[2], p[1]), "branch_outcomes": "%d/%d" % (p[4], p[3])} for p in per_reached[:worst]],
        "functions_never_called": len(never),
        "functions_never_called_sample": never[:worst],
    }


def uncovered_lines(files, name):
    ent = files.get(name)
    if not ent:
        return None
    return sorted(n for n, c in ent["lines"].items() if c == 0)


def measure_gen_monitor(lines, seed, n_iid, n_grid, hostile, extra_env=None, timeout=7200, deep_events=0):
    """Run harness/gen_monitor.cc on `lines` under the coverage build; returns (summary, files)."""
    exe = build.harness("cov", "gen_monitor", ["gen_monitor.cc"], extra_flags="-rdynamic", libs="-ldl")
    bdir = build.variant_dir("cov")
    prefix = tempfile.mkdtemp(prefix="gcda.", dir=bdir)
    spec = os.path.join(prefix, "w.spec")
    open(spec, "w").write("\n".join(lines) + "\n")
    nshards = min(len(lines), NCPU * 4)
    env = dict(extra_env or {})
    env.update({"GCOV_PREFIX": prefix})

    def one(shard):
        return run([exe, spec, str(seed), str(n_iid), str(n_grid), "1" if hostile else "0", str(shard), str(nshards), str(deep_events)],
                   timeout=timeout, env=build.lib_env("cov", env))

    res = pmap(one, list(range(nshards)), jobs=NCPU)
    bad = [r for r in res if r[0] != 0]
    events = 0
    for rc, out, err in res:
        for ln in out.splitlines():
            if ln.startswith("{"):
                try:
                    events += json.loads(ln).get("events", 0)
                except ValueError:
                    pass
    files = _collect(prefix, bdir)
    shutil.rmtree(prefix, ignore_errors=True)
    s = summarise(files)
    s["workload_events"] = events
    s["processes_failed"] = len(bad)
    s["tool"] = "gcc --coverage (-O0) build of the working tree; gcov-12 -b --json-format; exceptional call edges excluded"
    return s, files
