"""Common machinery for all checks: seeds, known findings, verdicts, evidence.

Verdict discipline (DESIGN.md section 0):
  exit 0  property held on everything observed (KNOWN-FINDING lines allowed)
  exit 1  at least one VIOLATION whose key is not listed as a finding
  exit 2  inconclusive: harness/build failure, watchdog, too few events observed
"""
import hashlib
import json
import os
import re
import subprocess
import sys
import time
import traceback

VERIF = os.path.dirname(os.path.dirname(os.path.abspath(__file__)))
REPO = os.environ.get("VERIF_REPO", "/repo")
# runs against a deliberately broken tree (tools/try_mutant.sh) write their evidence and replays elsewhere
EVIDENCE_DIR = os.environ.get("VERIF_EVIDENCE_DIR") or os.path.join(VERIF, "evidence")
REPLAY_DIR = os.path.join(VERIF, "replays")
KNOWN_FINDINGS = os.path.join(VERIF, "known_findings.txt")
EVIDENCE_SCHEMA = "/root/.vp/EVIDENCE.schema.json"
NCPU = int(os.environ.get("VERIF_JOBS", str(os.cpu_count() or 4)))

MASK = (1 << 64) - 1


def seed():
    try:
        return int(os.environ.get("VERIF_SEED", "1"))
    except ValueError:
        return 1


def splitmix64(x):
    x = (x + 0x9E3779B97F4A7C15) & MASK
    z = x
    z = ((z ^ (z >> 30)) * 0xBF58476D1CE4E5B9) & MASK
    z = ((z ^ (z >> 27)) * 0x94D049BB133111EB) & MASK
    return z ^ (z >> 31)


class Rng:
    """SplitMix64 stream; the same algorithm as harness/tape.h so that seeds
    derived in Python and in C++ agree."""

    def __init__(self, s, stream=0):
        self.state = splitmix64((s & MASK) ^ splitmix64(stream & MASK))

    def u64(self):
        self.state = (self.state + 0x9E3779B97F4A7C15) & MASK
        z = self.state
        z = ((z ^ (z >> 30)) * 0xBF58476D1CE4E5B9) & MASK
        z = ((z ^ (z >> 27)) * 0x94D049BB133111EB) & MASK
        return z ^ (z >> 31)

    def uniform(self):
        return ((self.u64() >> 11) + 0.5) / 9007199254740992.0

    def randint(self, lo, hi):
        """inclusive"""
        return lo + self.u64() % (hi - lo + 1)

    def choice(self, seq):
        return seq[self.u64() % len(seq)]

    def shuffle(self, seq):
        for i in range(len(seq) - 1, 0, -1):
            j = self.u64() % (i + 1)
            seq[i], seq[j] = seq[j], seq[i]

    def sample(self, seq, k):
        s = list(seq)
        self.shuffle(s)
        return s[:k]


def tier(argv=None):
    argv = sys.argv if argv is None else argv
    t = os.environ.get("VERIF_TIER", "")
    for i, a in enumerate(argv):
        if a == "--tier" and i + 1 < len(argv):
            t = argv[i + 1]
        elif a.startswith("--tier="):
            t = a.split("=", 1)[1]
    return t if t in ("quick", "thorough") else "quick"


def arg_value(name, default=None, argv=None):
    argv = sys.argv if argv is None else argv
    for i, a in enumerate(argv):
        if a == name and i + 1 < len(argv):
            return argv[i + 1]
        if a.startswith(name + "="):
            return a.split("=", 1)[1]
    return default


class Findings:
    """known_findings.txt: committed, never written at run time.

        finding: property=C01 key=<stable key> :: <text>
        fixed:   property=C01 <commit> key=<stable key> :: <text>

    A key may end in '*' to denote a prefix (used where one root cause
    produces a family of signatures, e.g. one missing cascade seen in all
    modes of one level).  'fixed:' lines suppress nothing."""

    LINE = re.compile(r"^(finding|fixed):\s+property=(\S+)\s+(?:(\S+)\s+)?key=(.*?)\s+::\s+(.*)$")

    def __init__(self, path=KNOWN_FINDINGS):
        self.entries = []  # (kind, prop, key, text)
        if os.path.exists(path):
            for ln in open(path, encoding="utf-8"):
                ln = ln.rstrip("\n")
                if not ln.strip() or ln.lstrip().startswith("#"):
                    continue
                m = self.LINE.match(ln.strip())
                if not m:
                    raise SystemExit("known_findings.txt: unparsable line: %r" % ln)
                kind, prop, _commit, key, text = m.groups()
                self.entries.append((kind, prop, key.strip(), text.strip()))

    def match(self, prop, key):
        for kind, p, k, text in self.entries:
            if kind != "finding" or p != prop:
                continue
            if k == key or (k.endswith("*") and key.startswith(k[:-1])):
                return (k, text)
        return None

    def findings_for(self, prop):
        return [(k, t) for kind, p, k, t in self.entries if kind == "finding" and p == prop]


class Check:
    """One run of one property check."""

    def __init__(self, prop, level, tier_=None):
        self.prop = prop
        self.level = level
        self.tier = tier_ or tier()
        self.seed = seed()
        self.t0 = time.time()
        self.findings = Findings()
        self.violations = {}      # key -> dict(text, replay)
        self.known = {}           # finding key -> count
        self.inconclusive = []    # reasons
        self.coverage = {}
        self.assumptions = []
        self.notes = []
        os.makedirs(EVIDENCE_DIR, exist_ok=True)

    # -- reporting -------------------------------------------------------
    def violation(self, key, text, replay_obj=None):
        """Route one violation through known-findings matching."""
        m = self.findings.match(self.prop, key)
        if m is not None:
            k, t = m
            if k not in self.known:
                print("KNOWN-FINDING: property=%s %s [key=%s]" % (self.prop, t, k), flush=True)
                self.known[k] = 0
            self.known[k] += 1
            return False
        if key in self.violations:
            self.violations[key]["count"] += 1
            return True
        path = self.write_replay(key, text, replay_obj)
        self.violations[key] = {"text": text, "replay": path, "count": 1}
        print("VIOLATION property=%s replay=%s" % (self.prop, path), flush=True)
        print("  key=%s :: %s" % (key, text), flush=True)
        return True

    def write_replay(self, key, text, obj):
        d = os.path.join(REPLAY_DIR, self.prop)
        os.makedirs(d, exist_ok=True)
        h = hashlib.sha1(key.encode()).hexdigest()[:12]
        path = os.path.join(d, "%s.json" % h)
        with open(path, "w") as f:
            json.dump({"property": self.prop, "key": key, "text": text, "seed": self.seed,
                       "tier": self.tier, "case": obj}, f, indent=1, default=str)
        return path

    def inconclusive_(self, reason):
        print("INCONCLUSIVE property=%s %s" % (self.prop, reason), flush=True)
        self.inconclusive.append(reason)

    def require(self, cond, reason):
        if not cond:
            self.inconclusive_(reason)

    def note(self, s):
        print("  " + s, flush=True)
        self.notes.append(s)

    # -- finish ----------------------------------------------------------
    def finish(self):
        cov = dict(self.coverage)
        stale = [k for k, _ in self.findings.findings_for(self.prop) if k not in self.known]
        cov["known_findings_observed"] = {k: n for k, n in self.known.items()}
        cov["stale_findings"] = stale
        if self.inconclusive:
            cov["inconclusive"] = self.inconclusive
        if self.violations:
            cov["violation_keys"] = sorted(self.violations)[:50]
        if self.notes:
            cov["notes"] = self.notes[-40:]
        ev = {
            "property_id": self.prop,
            "tier": self.tier,
            "seed": self.seed,
            "level": self.level,
            "coverage": cov,
            "assumptions": self.assumptions,
            "wall_s": round(time.time() - self.t0, 2),
            "violations": len(self.violations),
        }
        path = os.path.join(EVIDENCE_DIR, "%s.json" % self.prop)
        ok_schema = True
        try:
            import jsonschema
            schema = json.load(open(EVIDENCE_SCHEMA))
            jsonschema.validate(ev, schema)
        except ImportError:
            pass
        except FileNotFoundError:
            pass
        except Exception as e:  # validation error
            ok_schema = False
            print("INCONCLUSIVE property=%s evidence does not validate: %s" % (self.prop, str(e)[:400]))
        with open(path, "w") as f:
            json.dump(ev, f, indent=1, default=str)
            f.write("\n")
        print("%s tier=%s seed=%d: evaluations=%s distinct=%s violations=%d known=%d wall=%.1fs" % (
            self.prop, self.tier, self.seed, cov.get("evaluations"), cov.get("distinct_nontrivial"),
            len(self.violations), len(self.known), ev["wall_s"]), flush=True)
        if self.violations:
            sys.exit(1)
        if self.inconclusive or not ok_schema:
            sys.exit(2)
        sys.exit(0)


def main_guard(fn):
    """Run a check's main(); any uncaught harness error is exit 2 (inconclusive)."""
    try:
        fn()
    except SystemExit:
        raise
    except BaseException:
        traceback.print_exc()
        print("INCONCLUSIVE harness failure (see traceback)", flush=True)
        sys.exit(2)


def run(cmd, timeout=None, env=None, cwd=None, input_=None, check=False):
    """subprocess wrapper returning (rc, stdout, stderr); rc=None on watchdog."""
    e = dict(os.environ)
    if env:
        e.update(env)
    try:
        p = subprocess.run(cmd, stdout=subprocess.PIPE, stderr=subprocess.PIPE, timeout=timeout,
                           env=e, cwd=cwd, input=input_)
        if check and p.returncode != 0:
            raise RuntimeError("command failed (%d): %s\n%s" % (p.returncode, cmd, p.stderr.decode(errors="replace")[-4000:]))
        return p.returncode, p.stdout.decode(errors="replace"), p.stderr.decode(errors="replace")
    except subprocess.TimeoutExpired as ex:
        out = (ex.stdout or b"").decode(errors="replace")
        err = (ex.stderr or b"").decode(errors="replace")
        return None, out, err


def pmap(fn, items, jobs=None):
    """Thread pool map for subprocess-bound work (children do the computing)."""
    from concurrent.futures import ThreadPoolExecutor
    jobs = jobs or NCPU
    with ThreadPoolExecutor(max_workers=jobs) as ex:
        return list(ex.map(fn, items))


def sanitizer_key(text):
    """Reduce a sanitizer / libstdc++ assertion report to kind|frame0|frame1
    (library frames, line numbers stripped)."""
    kind = None
    m = re.search(r"ERROR: AddressSanitizer: ([\w-]+)", text)
    if m:
        kind = "asan:" + m.group(1)
    if kind is None:
        m = re.search(r"runtime error: (.*)", text)
        if m:
            msg = re.sub(r"0x[0-9a-f]+", "ADDR", m.group(1))
            msg = re.sub(r"-?\d[\d.e+-]*", "N", msg)
            kind = "ubsan:" + msg.strip()[:80]
    if kind is None:
        m = re.search(r"Assertion '([^']*)' failed", text)
        if m:
            kind = "libstdcxx-assert:" + m.group(1)[:60]
    if kind is None:
        m = re.search(r"^Error: (attempt to [^\n]*|[^\n]*iterator[^\n]*)$", text, re.M)   # libstdc++ debug mode (_GLIBCXX_DEBUG)
        if m:
            kind = "libstdcxx-debug:" + m.group(1).strip().rstrip(".")[:70]
    if kind is None:
        m = re.search(r"WARNING: ThreadSanitizer: ([\w -]+)", text)
        if m:
            kind = "tsan:" + m.group(1).strip()
    if kind is None:
        return None
    frames = []
    for fm in re.finditer(r"^\s*#\d+ 0x[0-9a-f]+ (?:in )?(\S+)(?: (\S+))?", text, re.M):
        fn_, loc = fm.group(1), fm.group(2) or ""
        if "bxdecay0" in fn_ or "bxdecay0" in loc or "/programs/" in loc:
            fn_ = re.sub(r"\(.*", "", fn_)
            if fn_ not in frames:
                frames.append(fn_)
        if len(frames) >= 2:
            break
    return "|".join([kind] + frames)


def comma_locale(root):
    """A private locale 'xx_XX' identical to POSIX except for a decimal COMMA, compiled with localedef from a hand-written charmap and
    source (no locale sources are installed in the sandbox).  Returns the LOCPATH directory, or None if localedef is missing/fails."""
    import shutil
    if shutil.which("localedef") is None:
        return None
    loc = os.path.join(root, "loc")
    os.makedirs(loc, exist_ok=True)
    cm = os.path.join(root, "ascii.cm")
    with open(cm, "w") as f:
        f.write("<code_set_name> ANSI_X3.4-1968\n<comment_char> %\n<escape_char> /\n<mb_cur_min> 1\n<mb_cur_max> 1\nCHARMAP\n")
        for i in range(128):
            f.write("<U%04X>     /x%02x         CH%d\n" % (i, i, i))
        f.write("END CHARMAP\n")
    src = os.path.join(root, "comma.src")
    with open(src, "w") as f:
        f.write('comment_char %\nescape_char /\nLC_NUMERIC\ndecimal_point "<U002C>"\nthousands_sep ""\ngrouping -1\nEND LC_NUMERIC\n')
    subprocess.run(["localedef", "-c", "-f", cm, "-i", src, os.path.join(loc, "xx_XX")], stdout=subprocess.DEVNULL, stderr=subprocess.DEVNULL)
    return loc if os.path.isdir(os.path.join(loc, "xx_XX")) else None
