"""Build /repo's current working tree in a named variant, out of tree, into a
scratch cache keyed by a hash of the sources; compile harness programs against it.

Nothing here reads or writes /repo/_build.  Nothing registered in MANIFEST
needs a scratch directory to pre-exist: absent means rebuild.
"""
import fcntl
import hashlib
import os
import shutil
import subprocess
import sys
import time

from .common import REPO, VERIF, run

SCRATCH = os.environ.get("VERIF_SCRATCH", "/tmp")
GUARD = "BXDECAY0_VERIF"
TREE_PATHS = ["CMakeLists.txt", "cmake", "bxdecay0", "programs", "extensions", "resources",
              "bxdecay0-config.in", "README.rst"]

SAN_COMMON = "-O1 -g -fno-omit-frame-pointer"
VARIANTS = {
    "plain": dict(cxx="g++", cc="gcc", flags="-O1 -g"),
    "asan": dict(cxx="g++", cc="gcc",
                 flags=SAN_COMMON + " -fsanitize=address,undefined -fno-sanitize-recover=all"
                                    " -D_GLIBCXX_ASSERTIONS -D_GLIBCXX_SANITIZE_VECTOR"),
    "tsan": dict(cxx="g++", cc="gcc", flags="-O1 -g -fsanitize=thread"),
    "cov": dict(cxx="g++", cc="gcc", flags="-O0 -g --coverage"),
    # libstdc++ debug mode: checked iterators and containers (dereferencing end(), invalidated iterators, out-of-range operator[]).
    # It changes the layout of the containers, so a harness of this variant compiles the library sources it needs itself (link_bx=False)
    "stldbg": dict(cxx="g++", cc="gcc", flags="-O1 -g -fno-omit-frame-pointer -D_GLIBCXX_DEBUG -D_GLIBCXX_DEBUG_PEDANTIC"),
    "fuzz": dict(cxx="clang++-14", cc="clang-14",
                 flags="-O1 -g -fno-omit-frame-pointer -fsanitize=fuzzer-no-link,address,undefined"
                       " -fno-sanitize=object-size -fno-sanitize-recover=all -D_GLIBCXX_ASSERTIONS"),
}


def _git(*args):
    return subprocess.run(["git", "-C", REPO] + list(args), stdout=subprocess.PIPE,
                          stderr=subprocess.DEVNULL).stdout


_tree_hash_cache = None


def tree_hash():
    """SHA-1 over index entries + diff against HEAD + untracked sources of the
    paths that take part in a build (so an edited working tree is rebuilt)."""
    global _tree_hash_cache
    if _tree_hash_cache:
        return _tree_hash_cache
    h = hashlib.sha1()
    h.update(_git("ls-files", "-s", "--", *TREE_PATHS))
    h.update(_git("diff", "HEAD", "--", *TREE_PATHS))
    others = _git("ls-files", "-o", "--exclude-standard", "--", *TREE_PATHS).decode().split("\n")
    for o in sorted(x for x in others if x and not x.startswith("_build")):
        p = os.path.join(REPO, o)
        try:
            h.update(o.encode())
            h.update(open(p, "rb").read())
        except OSError:
            pass
    _tree_hash_cache = h.hexdigest()[:16]
    return _tree_hash_cache


def cache_root():
    return os.path.join(SCRATCH, "bxverif.%s" % tree_hash())


def _prune():
    """Keep at most three tree hashes; never remove one touched in the last 6 hours
    (a long thorough run may still be launching harness processes from it)."""
    try:
        ds = [os.path.join(SCRATCH, d) for d in os.listdir(SCRATCH) if d.startswith("bxverif.")]
    except OSError:
        return
    ds = [d for d in ds if os.path.isdir(d) and d != cache_root()]
    ds.sort(key=lambda d: os.path.getmtime(d), reverse=True)
    now = time.time()
    for d in ds[2:]:
        if now - os.path.getmtime(d) > 6 * 3600:
            shutil.rmtree(d, ignore_errors=True)


class Lock:
    def __init__(self, path):
        self.path = path

    def __enter__(self):
        os.makedirs(os.path.dirname(self.path), exist_ok=True)
        self.f = open(self.path, "w")
        fcntl.flock(self.f, fcntl.LOCK_EX)
        return self

    def __exit__(self, *a):
        fcntl.flock(self.f, fcntl.LOCK_UN)
        self.f.close()


def variant_dir(variant):
    return os.path.join(cache_root(), variant)


def build(variant, targets=("BxDecay0", "bxdecay0-run"), quiet=True):
    """Configure+build the variant if not already built for this tree hash.
    Returns the build directory."""
    v = VARIANTS[variant]
    root = cache_root()
    os.makedirs(root, exist_ok=True)
    os.utime(root, None)
    _prune()
    bdir = variant_dir(variant)
    stamp = os.path.join(bdir, ".built." + "+".join(sorted(targets)) + "." + hashlib.sha1(v["flags"].encode()).hexdigest()[:8])
    with Lock(os.path.join(root, variant + ".lock")):
        if os.path.exists(stamp):
            return bdir
        os.makedirs(bdir, exist_ok=True)
        flags = v["flags"] + " -D" + GUARD
        cmd = ["cmake", "-G", "Ninja", "-S", REPO, "-B", bdir,
               "-DCMAKE_BUILD_TYPE=None", "-DBUILD_TESTING=OFF",
               "-DCMAKE_CXX_COMPILER=" + v["cxx"], "-DCMAKE_C_COMPILER=" + v["cc"],
               "-DCMAKE_CXX_FLAGS=" + flags, "-DCMAKE_C_FLAGS=" + v["flags"],
               "-DCMAKE_INSTALL_PREFIX=" + os.path.join(bdir, "_inst")]
        rc, out, err = run(cmd, timeout=600)
        if rc != 0:
            raise RuntimeError("cmake configure failed for %s:\n%s\n%s" % (variant, out[-3000:], err[-3000:]))
        rc, out, err = run(["cmake", "--build", bdir, "-j", str(os.cpu_count() or 4), "--target"] + list(targets),
                           timeout=3600)
        if rc != 0:
            raise RuntimeError("build failed for %s:\n%s\n%s" % (variant, out[-6000:], err[-3000:]))
        open(stamp, "w").write(time.ctime())
    return bdir


def lib_env(variant, extra=None):
    """Environment for running anything linked against the variant."""
    e = {"BXDECAY0_RESOURCE_DIR": os.path.join(REPO, "resources"),
         "ASAN_OPTIONS": "abort_on_error=1:detect_leaks=0:halt_on_error=1:detect_stack_use_after_return=0",
         "UBSAN_OPTIONS": "print_stacktrace=1:halt_on_error=1",
         "TSAN_OPTIONS": "halt_on_error=1:second_deadlock_stack=1"}
    if extra:
        e.update(extra)
    return e


def _src_hash(paths, extra):
    h = hashlib.sha1()
    for p in paths:
        h.update(open(p, "rb").read())
    hd = os.path.join(VERIF, "harness")
    for fn in sorted(os.listdir(hd)):
        if fn.endswith(".h"):
            h.update(open(os.path.join(hd, fn), "rb").read())
    h.update(extra.encode())
    return h.hexdigest()[:12]


def harness(variant, name, sources, extra_flags="", libs="", objects=(), link_bx=True, std="gnu++17"):
    """Compile harness program `name` from `sources` (paths relative to
    /verif/harness) against the variant; returns the executable path."""
    if link_bx:
        bdir = build(variant, targets=("BxDecay0",))
    else:
        bdir = variant_dir(variant)
        os.makedirs(bdir, exist_ok=True)
    v = VARIANTS[variant]
    srcs = [s if os.path.isabs(s) else os.path.join(VERIF, "harness", s) for s in sources]
    key = _src_hash(srcs, extra_flags + libs + " ".join(objects) + v["flags"] + std)
    hdir = os.path.join(bdir, "h")
    exe = os.path.join(hdir, "%s.%s" % (name, key))
    with Lock(os.path.join(hdir, name + ".lock")):
        if os.path.exists(exe):
            return exe
        flags = v["flags"].replace("fuzzer-no-link", "fuzzer-no-link")
        cmd = [v["cxx"], "-std=" + std] + flags.split() + ["-D" + GUARD,
               "-I" + REPO, "-I" + bdir, "-I" + os.path.join(bdir, "bxdecay0"),
               "-I" + os.path.join(VERIF, "harness")] + extra_flags.split() + srcs + list(objects) + ["-o", exe + ".tmp"]
        if link_bx:
            cmd += ["-L" + bdir, "-lBxDecay0", "-Wl,-rpath," + bdir]
        cmd += libs.split() + ["-lgsl", "-lgslcblas", "-lm", "-lpthread"]
        rc, out, err = run(cmd, timeout=1200)
        if rc != 0:
            raise RuntimeError("harness compile failed (%s/%s):\n%s\n%s" % (variant, name, " ".join(cmd), err[-6000:]))
        os.replace(exe + ".tmp", exe)
    return exe


if __name__ == "__main__":
    # python3 -m vlib.build <variant>...
    for vname in sys.argv[1:] or ["plain"]:
        t = time.time()
        d = build(vname)
        print("%s -> %s (%.1fs)" % (vname, d, time.time() - t))
