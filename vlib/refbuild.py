"""Build the Decay0 Fortran reference (DESIGN.md 1.3) from the file in /repo into
an object file inside the build cache.  Returns the list of objects to link."""
import hashlib
import os
import re

from .common import REPO, VERIF, run
from . import build

REF_SRC = os.path.join(REPO, "resources/code/decay0/decay0_2020-04-20.for")
FFLAGS = ("-O1 -g -std=legacy -ffixed-form -fd-lines-as-comments -fdefault-real-8 -fdefault-double-8 "
          "-finit-local-zero -w -fPIC").split()
PI_D = "3.141592653589793d0"
TWOPI_D = "6.283185307179586d0"


def extract():
    lines = open(REF_SRC, encoding="latin-1").read().split("\n")
    start = None
    for i, l in enumerate(lines):
        if re.match(r"^\s+subroutine GENBBsub\(", l):
            start = i
            break
    if start is None:
        raise RuntimeError("reference: 'subroutine GENBBsub' not found in %s" % REF_SRC)
    body = lines[start:]
    out = []
    n_pi = 0
    in_fermi = False
    n_fermi = 0
    n_spthe = 0
    for l in body:
        is_comment = l[:1] in ("c", "C", "*", "!")
        if not is_comment and re.match(r"^\s+save spthe1,spmax\s*$", l):
            # observability only: the first-lepton spectrum table of subroutine bb moves from SAVEd local storage to a named
            # common block (same lifetime), so that the accessor can read it after an initialisation
            l = "      common/vfspthe/spthe1,spmax"
            n_spthe += 1
        if not is_comment:
            # normalisation 1: 8-digit literals of pi -> double precision (see DESIGN 1.3)
            if "3.1415927" in l:
                l = l.replace("3.1415927", PI_D)
                n_pi += 1
            if "6.2831853" in l:
                l = l.replace("6.2831853", TWOPI_D)
                n_pi += 1
            # the reference's own Fermi function is kept, under another name, so that the shim can
            # select it (Level A comparisons) or the port's (Level B, while the Level-A finding stands)
            if re.match(r"^\s+function fermi\(Z,E\)", l):
                l = l.replace("function fermi(", "function fermiref(")
                in_fermi = True
                n_fermi += 1
            elif in_fermi:
                if re.match(r"^\s+fermi=", l):
                    # keep the statement inside column 72: pi goes through a local variable
                    l = l.replace("fermi=", "fermiref=", 1).replace(PI_D, "pid")
                    out.append("\tpid=" + PI_D)
                    n_fermi += 1
                if re.match(r"^\s+end\s*$", l):
                    in_fermi = False
        out.append(l)
    if n_pi < 2:
        raise RuntimeError("reference: expected >=2 literals of pi to normalise, found %d" % n_pi)
    if n_spthe != 1:
        raise RuntimeError("reference: 'save spthe1,spmax' not found exactly once (%d)" % n_spthe)
    if n_fermi != 2:
        raise RuntimeError("reference: could not rename function fermi (%d edits)" % n_fermi)
    return "\n".join(out) + "\n"


def build_ref(variant="plain"):
    bdir = build.build(variant, targets=("BxDecay0",))
    rdir = os.path.join(bdir, "ref")
    os.makedirs(rdir, exist_ok=True)
    src = extract()
    acc = open(os.path.join(VERIF, "harness/ref/vf_access.f")).read()
    key = hashlib.sha1((src + acc + " ".join(FFLAGS)).encode("latin-1")).hexdigest()[:12]
    o1 = os.path.join(rdir, "ref.%s.o" % key)
    o2 = os.path.join(rdir, "acc.%s.o" % key)
    with build.Lock(os.path.join(rdir, "ref.lock")):
        if not (os.path.exists(o1) and os.path.exists(o2)):
            f1 = os.path.join(rdir, "ref.f")
            f2 = os.path.join(rdir, "acc.f")
            open(f1, "w", encoding="latin-1").write(src)
            open(f2, "w").write(acc)
            for f, o in ((f1, o1), (f2, o2)):
                rc, out, err = run(["gfortran-12", "-c"] + FFLAGS + [f, "-o", o + ".tmp"], timeout=600)
                if rc != 0:
                    raise RuntimeError("gfortran failed on %s:\n%s" % (f, err[-4000:]))
                os.replace(o + ".tmp", o)
    return [o1, o2]


def ref_harness(variant, name, sources, extra_flags=""):
    objs = build_ref(variant)
    return build.harness(variant, name, sources, extra_flags=extra_flags, libs="-lgfortran -ldl", objects=objs)
