"""Synthetic gA datasets written with the repository's own encoder
(resources/data/dbd_gA/tools/mkocdfdata.py), DESIGN.md C14."""
import contextlib
import importlib.util
import io
import json
import math
import os
import shutil

from . import build
from .common import REPO, Rng

ENCODER = os.path.join(REPO, "resources/data/dbd_gA/tools/mkocdfdata.py")
PROCESSES = ["g0", "g2", "g22", "g4"]


def load_encoder():
    spec = importlib.util.spec_from_file_location("mkocdfdata_repo", ENCODER)
    mod = importlib.util.module_from_spec(spec)
    spec.loader.exec_module(mod)
    return mod


def pdf_value(shape, e1, e2, Q, par):
    s = e1 + e2
    if shape == "flat":
        return 1.0
    if shape == "peaked":
        c1, c2, w = par
        return math.exp(-((e1 - c1 * Q) ** 2 + (e2 - c2 * Q) ** 2) / (2 * (w * Q) ** 2)) + 1e-6
    if shape == "steep":
        k = par[0]
        return math.exp(-k * s / Q) + 1e-300
    if shape == "phase":   # 2nu-like phase space
        return max(0.0, (e1 + 0.511) * (e2 + 0.511) * math.sqrt(e1 * (e1 + 1.022)) * math.sqrt(e2 * (e2 + 1.022)) * max(0.0, Q - s) ** 5) + 1e-12
    if shape == "zerotail":
        return 0.0 if s > par[0] * Q else 1.0 + e1
    if shape == "holes":    # interior bands of zero density: flat runs inside the cumulative rows
        lo, hi = par
        return 0.0 if lo * Q <= e2 <= hi * Q else 1.0 + 0.5 * e1
    raise ValueError(shape)


def synth(outbase, nuclide, process, rng, n=None, shape=None, layout="test", quiet=True, emax_at_q=None):
    """Write <outbase>/data/dbd_gA/v1.0/<nuclide>/<process>/{tab_pdf.data,tab_ocdf.data} (+ truth.json).
    layout 'test':    E_min + E_max <= Q (as the shipped Test table)
    layout 'exceeds': E_min + E_max slightly above Q (as the documented real tables); c.d.f. file only."""
    enc = load_encoder()
    n = n or rng.randint(2, 96)
    shape = shape or rng.choice(["flat", "peaked", "steep", "phase", "zerotail", "holes"])
    Q = round(0.5 + 3.5 * rng.uniform(), 4)
    if layout == "test":
        emin = round(Q * (0.0005 + 0.08 * rng.uniform()), 6)
        emax = round(Q * (0.90 + 0.08 * rng.uniform()) - emin, 6)
    elif emax_at_q or (emax_at_q is None and rng.uniform() < 0.3):
        # the grid ends exactly at the maximum energy sum (a table sampled from E_min up to Q): the boundary case of the header rule
        emin = round(Q * (0.002 + 0.004 * rng.uniform()), 6)
        emax = Q
    elif rng.uniform() < 0.5:
        emin = round(Q * (0.002 + 0.004 * rng.uniform()), 6)
        emax = round(Q * 0.9995, 6)
    else:
        # a wider strip between the maximum energy sum and E_min + E_max (up to ~8 % of Q)
        emin = round(Q * (0.01 + 0.06 * rng.uniform()), 6)
        emax = round(Q * (0.96 + 0.035 * rng.uniform()), 6)
    par = {"flat": (), "peaked": (0.1 + 0.5 * rng.uniform(), 0.1 + 0.4 * rng.uniform(), 0.03 + 0.2 * rng.uniform()),
           "steep": (rng.choice([5, 20, 60, 150, 400]),), "phase": (), "zerotail": (0.35 + 0.5 * rng.uniform(),),
           "holes": (lambda a: (a, a + 0.05 + 0.2 * rng.uniform()))(0.1 + 0.3 * rng.uniform())}[shape]
    step = (emax - emin) / (n - 1)
    d = os.path.join(outbase, "data/dbd_gA/v1.0", nuclide, process)
    os.makedirs(d, exist_ok=True)
    raw = os.path.join(d, "raw_pdf.dat")
    with open(raw, "w") as f:
        for i in range(n):
            e1 = emin + i * step
            for j in range(n - i):
                e2 = emin + j * step
                p = pdf_value(shape, e1, e2, Q, par)
                if e1 + e2 > Q:
                    # a well-formed table has no density above the maximum energy sum; in the 'exceeds' layout the last
                    # row is a single point above Q: it keeps a negligible weight because the encoder divides by the row sum
                    p = 1e-30 if (layout == "exceeds" and j == 0) else 0.0   # (the first value of a row that lies entirely above Q)
                if j == 0 and e1 + e2 <= Q:
                    p = max(p, 1e-3)   # every row keeps a non-zero sum (the encoder divides by it)
                f.write("%.10e %.10e %.7e\n" % (e1, e2, p))
    cwd = os.getcwd()
    os.chdir(d)
    try:
        with contextlib.redirect_stderr(io.StringIO()), contextlib.redirect_stdout(io.StringIO()):
            app = enc.mkocdfdata(raw, nuclide, process, Q, False)
            app.load_tab_pdf()
            app.fill_tab_cdf()
            app.fill_tab_ncdf()
            if layout != "exceeds":
                app.save_tab_pdf(False)
            app.save_tab_ncdf(1, False)
    finally:
        os.chdir(cwd)
    if layout == "exceeds":
        # the p.d.f. loader demands exact zeros above Q while the encoder needs a non-zero last row: the p.d.f. file of this layout
        # (E_min + E_max above the maximum energy sum, as the documented real tables) is written here, in the encoder's format, with
        # exact zeros on every node above Q
        with open(os.path.join(d, "tab_pdf.data"), "w") as f:
            f.write("#isotope=%s\n#dbd_ga.mode=%s\n%.4f\n" % (nuclide, process, Q))
            f.write("Probability %.16e %.16e %.16e %d\n" % (app.e1min, app.e1max, app.estep, n))
            for i in range(n):
                e1 = app.e1min + i * app.estep
                row = []
                for j in range(n - i):
                    e2 = app.e1min + j * app.estep
                    pv = pdf_value(shape, e1, e2, Q, par)
                    row.append(0.0 if e1 + e2 > float("%.4f" % Q) else max(pv, 1e-6))
                f.write(" ".join("%.7e" % v for v in row) + " \n")
    truth = {"nuclide": nuclide, "process": process, "n": n, "shape": shape, "layout": layout, "Q": Q,
             "emin": app.e1min, "emax": app.e1max, "estep": app.estep,
             "e1_cdf": [t[0] for t in app.tab_ncdf], "e2_cdf": [t[1] for t in app.tab_ncdf]}
    with open(os.path.join(d, "truth.json"), "w") as f:
        json.dump(truth, f)
    os.unlink(raw)
    return truth


def make_generator_datasets(seed, base=None):
    """Datasets for the four real nuclide names x four processes (for decay0_generator-level runs).
    Returns (BXDECAY0_DBD_GA_DATA_DIR, summary)."""
    base = base or os.path.join(build.cache_root(), "gadata.gen.%d" % seed)
    stamp = os.path.join(base, ".done")
    info = {}
    if not os.path.exists(stamp):
        shutil.rmtree(base, ignore_errors=True)
        rng = Rng(seed, 1414)
        for nuc in ("Se82", "Mo100", "Cd116", "Nd150"):
            for pr in PROCESSES:
                t = synth(base, nuc, pr, rng, n=rng.randint(8, 48), shape=rng.choice(["phase", "peaked", "flat"]), layout="test")
                info["%s/%s" % (nuc, pr)] = {"n": t["n"], "shape": t["shape"], "Q": t["Q"]}
        json.dump(info, open(os.path.join(base, "summary.json"), "w"))
        open(stamp, "w").write("ok")
    else:
        info = json.load(open(os.path.join(base, "summary.json")))
    return base, info
