// Port-only generation monitor used by C03 (energy budget, window), C04 (well-formed, bounded work)
// and C08 (the same workload under ASan/UBSan).
// usage: gen_monitor <specfile> <seed> <n_iid> <n_grid> <hostile 0|1> <shard> <nshards> [deep_events]
//   (D lines may end with 'T thr thr ...': branching thresholds of the daughter's de-excitation scheme)
//   spec lines:
//     B <name> [thr ...]
//     D <name> <level> <mode> <e1> <e2> <window 0|1> <Q> <budget: 0 le | 1 eq> <chain 0|1> <tolerance MeV> [work bound]
//     (a value >= 1 on a B line is the work bound)
// Output: one JSON line per configuration.
#include <cstdlib>
#include <fstream>
#include <memory>
#include <limits>
#include <set>
#include <sstream>

#include <bxdecay0/bb_utils.h>
#include <bxdecay0/decay0_generator.h>
#include <bxdecay0/event.h>
#include <bxdecay0/i_decay_generator.h>

#include "diffcore_port.h"
#include "steer.h"
#include "tablewrap.h"
#include "paramwatch.h"

using namespace verif;

struct Spec
{
  char kind = 'B';
  std::string name;
  std::vector<double> thr;
  int level = 0, mode = 0;
  double e1 = 0, e2 = 0;
  bool window = false;
  double Q = 0;
  int budget_eq = 0;
  bool chain = false;
  double tol = 0.003;
  size_t work_bound = 0; // soft bound on deviates per shot (0: only the tape's hard cap)
  std::string label() const
  {
    if (kind == 'B') return "bkg/" + name;
    return "dbd/" + name + "/L" + std::to_string(level) + "/m" + std::to_string(mode) + (window ? fmt("/w%.6g-%.6g", e1, e2) : "");
  }
};

static void run(const Spec & sp, uint64_t seed, long n_iid, int n_grid, bool hostile, long deep_events)
{
  std::string lab = sp.label();
  verif::param_watch().context = lab;
  Stats st;
  st.name = lab;
  Tape tape;
  // owned and released through the interface type, as an application holding a collection of generators does
  std::unique_ptr<bxdecay0::i_decay_generator> owner(new bxdecay0::decay0_generator);
  bxdecay0::decay0_generator & gen = static_cast<bxdecay0::decay0_generator &>(*owner);
  std::string init_error;
  try {
    if (verif_debug_flags()) gen.set_debug(true);
    if (sp.kind == 'B') {
      gen.set_decay_category(bxdecay0::decay0_generator::DECAY_CATEGORY_BACKGROUND);
      gen.set_decay_isotope(sp.name);
    } else {
      gen.set_decay_category(bxdecay0::decay0_generator::DECAY_CATEGORY_DBD);
      gen.set_decay_isotope(sp.name);
      gen.set_decay_dbd_level(sp.level);
      gen.set_decay_dbd_mode((bxdecay0::dbd_mode_type)sp.mode);
      if (sp.window) gen.set_decay_dbd_esum_range(sp.e1, sp.e2);
    }
    Tape t0(seed, 7);
    gen.initialize(t0);
  } catch (std::exception & x) {
    init_error = x.what();
  }
  if (!init_error.empty()) {
    fprintf(OUT, "{\"config\":%s,\"accepted\":false,\"init_error\":%s}\n", jstr(lab).c_str(), jstr(init_error).c_str());
    fflush(OUT);
    return;
  }
  double toall = gen.get_to_all_events();
  std::map<long, long> hist; // round((Evis-Q) keV) -> count
  std::map<std::string, Mismatch> budget;
  double emax = sp.kind == 'B' ? 12.0 : (sp.chain ? 12.0 : sp.Q + 0.01);
  uint64_t stream = (hash_str(lab) & 0xffffff) << 24;
  double tsum_min = 1e9, tsum_max = -1e9;

  auto rec_simple = [&](std::map<std::string, Mismatch> & m, const std::string & key, const std::string & detail) {
    Mismatch & x = m[key];
    if (x.count++ == 0) {
      x.key = key;
      x.detail = detail;
    }
  };
  // the tables of the sampler are indexed by energy in keV up to int(e0*1000): the kinematic limit the initialisation has just computed
  // must fit their fixed capacity (the arrays sit inside one object, where neither red zones nor valgrind see an overrun)
  std::map<std::string, Mismatch> memory;
  if (sp.kind != 'B') {
    const bxdecay0::bbpars & bp = gen.get_bb_params();
    if (std::isfinite(bp.e0) && bp.e0 > 0 && bp.e0 < 1e6 && (long)(bp.e0 * 1000.) > (long)bxdecay0::bbpars::SPSIZE)
      rec_simple(memory, lab + "|spectrum-table-capacity",
                 fmt("after initialisation e0 = %.6f MeV: the sampler indexes spthe1/spthe2 up to element %ld, the arrays hold %u", bp.e0, (long)(bp.e0 * 1000.), (unsigned)bxdecay0::bbpars::SPSIZE));
  }
  // the parameters fixed by the initialisation are inputs of every shot, never outputs: their text dump must read the same after the run
  // (the keV-binned tables sit right behind them in the same object: a write before or past the tables lands here unseen by any sanitizer)
  // (helpbb::e1 and the denrange members are working data of the samplers and integrands: left out)
  auto fixed_pars = [&]() {
    std::ostringstream o;
    gen.get_bb_params().dump(o, "");
    std::istringstream in(o.str());
    std::string ln, out;
    while (std::getline(in, ln)) {
      if (ln.find("-- e1 ") != std::string::npos || ln.find("-- dens ") != std::string::npos || ln.find("-- denf ") != std::string::npos || ln.find("-- mode ") != std::string::npos) continue;
      out += ln + "\n";
    }
    return out;
  };
  std::string pars_after_init;
  if (sp.kind != 'B') pars_after_init = fixed_pars();
  uint64_t last_sig = 0;
  auto one = [&](const std::string & steer) -> size_t {
    last_sig = 0;
    bxdecay0::event ev;
    tape.rewind();
    bool ok = true;
    std::string exc;
    try {
      gen.shoot(tape, ev);
    } catch (tape_exhausted &) {
      ok = false;
      exc = "cap";
    } catch (std::exception & x) {
      ok = false;
      exc = x.what();
    }
    size_t d = tape.pos;
    st.events++;
    if (d > st.max_draws) st.max_draws = d;
    st.draws_hist.push_back(d);
    auto rec = [&](std::map<std::string, Mismatch> & m, const std::string & key, const std::string & detail) {
      Mismatch & x = m[key];
      if (x.count++ == 0) {
        x.key = key;
        x.detail = detail;
        x.tape = tape.prefix_json(std::min<size_t>(d, 70));
        x.port = event_json(ev);
        x.steer = steer;
      }
    };
    if (ok && sp.work_bound && d > sp.work_bound)
      rec(st.wf, lab + "|work-bound", fmt("one shot consumed %zu deviates (bound for this kind of configuration: %zu)", d, sp.work_bound));
    if (!ok) {
      st.cap_hits++;
      rec(st.wf, lab + "|" + (exc == "cap" ? "unbounded-draws" : "exception"), exc == "cap" ? fmt("one shot consumed more than %zu deviates", tape.cap) : exc);
      return d;
    }
    std::string k, dt;
    if (!wellformed(ev, sp.name, emax, k, dt)) rec(st.wf, lab + "|" + k, dt);
    if (sp.kind == 'B') {
      // one decay of one nuclide (with its published short-lived daughter, where the name has one): none of the 69 published background
      // names can emit two alpha particles in one event - two alphas are two decays glued together
      int nalpha = 0;
      for (auto & q : ev.get_particles())
        if (q.is_alpha()) nalpha++;
      if (nalpha > 1) rec(st.wf, lab + "|two-alpha-particles", fmt("%d alpha particles in one event of %s", nalpha, sp.name.c_str()));
    }
    last_sig = hash_str(signature(ev));
    st.sigs.insert(last_sig);
    if (sp.kind == 'D') {
      const auto & pp = ev.get_particles();
      double evis = 0;
      for (const auto & p : pp) {
        if (sp.chain && p.is_alpha()) break;
        evis += ekin(p);
        if (p.is_positron()) evis += 1.022;
      }
      double diff = evis - sp.Q;
      hist[std::lround(diff * 1000.0)]++;
      if (sp.budget_eq) {
        if (!(std::fabs(diff) <= sp.tol)) rec(budget, lab + fmt("|budget-eq|%+ldkeV", std::lround(diff * 1000.0)), fmt("visible energy %.6f MeV, Q = %.6f MeV (difference %+.1f keV)", evis, sp.Q, diff * 1000));
      } else {
        if (!(diff <= sp.tol)) rec(budget, lab + fmt("|budget-le|%+ldkeV", std::lround(diff * 1000.0)), fmt("visible energy %.6f MeV exceeds Q = %.6f MeV by %.1f keV", evis, sp.Q, diff * 1000));
      }
      if (sp.window && pp.size() >= 2) {
        double ts = ekin(pp[0]) + (sp.mode == 10 ? 0.0 : ekin(pp[1]));
        if (ts < tsum_min) tsum_min = ts;
        if (ts > tsum_max) tsum_max = ts;
        bool in_lo = std::isnan(sp.e1) || ts >= sp.e1 - 1e-9, in_hi = std::isnan(sp.e2) || ts <= sp.e2 + 1e-9;
        if (!(in_lo && in_hi)) rec(budget, lab + "|window", fmt("lepton energy sum %.9f MeV outside the window [%.9g,%.9g]", ts, sp.e1, sp.e2));
      }
    }
    if (st.sample.empty() && st.events > 2) st.sample = "{\"tape\":" + tape.prefix_json(std::min<size_t>(d, 10)) + ",\"draws\":" + std::to_string(d) + ",\"event\":" + event_json(ev) + "}";
    return d;
  };

  size_t kmax = 0;
  for (long i = 0; i < n_iid; i++) {
    tape.reseed(seed, stream++);
    size_t d = one("");
    if (d > kmax) kmax = d;
  }
  size_t K = std::min<size_t>(kmax, 64);
  std::vector<double> grid = grid_values(n_grid);
  for (size_t k = 0; k < K; k++) {
    if (hostile) {
      for (double v : {1e-12, 1 - 1e-12, 1e-300, 0.5}) {
        tape.reseed(seed, stream++);
        tape.pin(k, v);
        one(fmt("cell %zu=%.17g", k, v));
      }
      // two neighbouring cells in the tails together
      tape.reseed(seed, stream++);
      tape.pin(k, 1e-12);
      tape.pin(k + 1, 1 - 1e-12);
      one(fmt("cells %zu=1e-12,%zu=1-1e-12", k, k + 1));
      tape.reseed(seed, stream++);
      tape.pin(k, 1 - 1e-12);
      tape.pin(k + 1, 1e-12);
      one(fmt("cells %zu=1-1e-12,%zu=1e-12", k, k + 1));
    }
    for (double g : grid) {
      tape.reseed(seed, stream++);
      tape.pin(k, g);
      one(fmt("cell %zu=%.17g", k, g));
    }
    for (double t : sp.thr)
      for (double eps : {-1e-9, 1e-9}) {
        double v = t + eps;
        if (!(v > 0 && v < 1)) continue;
        tape.reseed(seed, stream++);
        tape.pin(k, v);
        one(fmt("cell %zu=%.17g (threshold)", k, v));
      }
  }
  if (hostile) {
    // whole tape in a tail
    for (double v : {1e-12, 1 - 1e-12}) {
      tape.reseed(seed, stream++);
      for (size_t k = 0; k < 40; k++) tape.pin(k, v);
      one(fmt("cells 0..39=%.17g", v));
    }
  }
  // deep steering: frontier search over pinned cells (rare branches of rare branches)
  DeepSteerStats ds;
  if (deep_events > 0 && !sp.thr.empty()) {
    ds = deep_steer(tape, seed, stream + 1000, sp.thr, deep_events, 4, [&](const std::string & steer, size_t & d) {
      d = one(steer);
      return last_sig;
    });
  }
  // the reported full-range/window ratio is a property of the configuration: it must read the same after the run as after initialize()
  {
    double toall_after = gen.get_to_all_events();
    if (!(toall_after == toall) && !(std::isnan(toall_after) && std::isnan(toall)))
      rec_simple(budget, lab + "|toallevents-changes", fmt("get_to_all_events() was %.12g after initialize() and is %.12g after %ld shots", toall, toall_after, st.events));
  }
  if (sp.kind != 'B') {
    const std::string now = fixed_pars();
    if (now != pars_after_init) {
      // which lines differ
      std::istringstream a(pars_after_init), b(now);
      std::string la, lb, diff;
      while (std::getline(a, la) && std::getline(b, lb))
        if (la != lb && diff.size() < 300) diff += "[" + la + "] -> [" + lb + "] ";
      rec_simple(memory, lab + "|initialised-parameters-changed", "the double-beta parameters set by initialize() read differently after the shots: " + diff);
    }
  }
  // transition-parameter monitor: what the interposed nucltransK* entry points saw while this configuration ran
  for (auto & kv : verif::param_watch().bad) {
    Mismatch & x = st.wf[kv.first];
    if (x.count++ == 0) {
      x.key = kv.first;
      x.detail = kv.second;
    }
  }
  verif::param_watch().bad.clear();
  std::sort(st.draws_hist.begin(), st.draws_hist.end());
  size_t p999 = st.draws_hist.empty() ? 0 : st.draws_hist[(size_t)(0.999 * (st.draws_hist.size() - 1))];
  fprintf(OUT, "{\"config\":%s,\"accepted\":true,\"kind\":\"%c\",\"name\":%s,\"level\":%d,\"mode\":%d,\"window\":%s,\"e1\":%s,\"e2\":%s,\"toallevents\":%s,"
               "\"events\":%ld,\"distinct_signatures\":%zu,\"max_draws\":%zu,\"p999_draws\":%zu,\"cap_hits\":%ld,\"tsum_min\":%s,\"tsum_max\":%s,\"deep\":[%ld,%ld,%ld,%ld,%ld],\"sample\":%s,\"hist\":{",
          jstr(lab).c_str(), sp.kind, jstr(sp.name).c_str(), sp.level, sp.mode, sp.window ? "true" : "false", jnum(sp.e1).c_str(), jnum(sp.e2).c_str(),
          jnum(toall).c_str(), st.events, st.sigs.size(), st.max_draws, p999, st.cap_hits, jnum(tsum_min).c_str(), jnum(tsum_max).c_str(),
          ds.events, ds.nodes_expanded, ds.nodes_found, ds.max_depth, ds.frontier_left, st.sample.empty() ? "null" : st.sample.c_str());
  bool first = true;
  for (auto & kv : hist) {
    fprintf(OUT, "%s\"%ld\":%ld", first ? "" : ",", kv.first, kv.second);
    first = false;
  }
  fprintf(OUT, "},");
  emit_mismatches(OUT, "wellformed", st.wf);
  fprintf(OUT, ",");
  emit_mismatches(OUT, "budget", budget);
  fprintf(OUT, ",");
  emit_mismatches(OUT, "memory", memory);
  fprintf(OUT, "}\n");
  fflush(OUT);
}

int main(int argc, char ** argv)
{
  if (argc < 8) {
    fprintf(stderr, "usage\n");
    return 2;
  }
  uint64_t seed = strtoull(argv[2], 0, 10);
  long n_iid = atol(argv[3]);
  int n_grid = atoi(argv[4]);
  bool hostile = atoi(argv[5]) != 0;
  int shard = atoi(argv[6]), nshards = atoi(argv[7]);
  long deep_events = argc > 8 ? atol(argv[8]) : 0;
  std::ifstream in(argv[1]);
  std::string line;
  int idx = 0;
  while (std::getline(in, line)) {
    if (line.empty()) continue;
    if ((idx++ % nshards) != shard) continue;
    std::istringstream ls(line);
    Spec sp;
    std::string kind;
    ls >> kind >> sp.name;
    sp.kind = kind[0];
    if (sp.kind == 'B') {
      double v;
      while (ls >> v) {
        if (v > 0 && v < 1) sp.thr.push_back(v);
        if (v >= 1) sp.work_bound = (size_t)v;
      }
    } else {
      int w = 0, ch = 0;
      ls >> sp.level >> sp.mode >> sp.e1 >> sp.e2 >> w >> sp.Q >> sp.budget_eq >> ch >> sp.tol;
      if (sp.e1 == -999.0) sp.e1 = std::numeric_limits<double>::quiet_NaN(); // one-sided windows: the other limit left undefined
      if (sp.e2 == -999.0) sp.e2 = std::numeric_limits<double>::quiet_NaN();
      double wb = 0;
      if (ls >> wb) sp.work_bound = (size_t)wb;
      std::string tk;
      if (ls >> tk && tk == "T") {
        double v;
        while (ls >> v)
          if (v > 0 && v < 1) sp.thr.push_back(v);
      }
      sp.window = w != 0;
      sp.chain = ch != 0;
    }
    run(sp, seed, n_iid, n_grid, hostile, deep_events);
  }
  if (VERIF_TABLEWRAP_ACTIVE) fprintf(OUT, "{\"tablewrap_divdif_calls\":%ld}\n", (long)verif::g_divdif_wrapped);
  fprintf(OUT, "{\"paramwatch_transition_calls\":%ld}\n", verif::param_watch().calls);
  return 0;
}
