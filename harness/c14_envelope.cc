// C14, rejection method: the envelope of the rejection sampler is the maximum of the WHOLE table.
// usage: c14_envelope   (BXDECAY0_DBD_GA_DATA_DIR points to a directory holding Test/g0/tab_pdf.data whose maximum, 1.0, sits on a node
// with e1 + e2 exactly equal to the maximum energy sum, all other nodes <= 0.4)
// With every third deviate (the acceptance draw) at 1 - 1e-9 a trial is accepted only where the interpolated density is within 1e-9 of
// the table maximum, i.e. practically on that single node: in a few thousand trials with random (u1,u2) the sampler must keep rejecting.
// An envelope below the maximum accepts wherever the density exceeds it, and the sampled density is clipped.
#include <cmath>
#include <cstdio>
#include <bxdecay0/dbd_gA.h>
#include "tape.h"

int main()
{
  using bxdecay0::dbd_gA;
  dbd_gA g;
  try {
    g.set_nuclide("Test");
    g.set_process(dbd_gA::PROCESS_G0);
    g.set_shooting(dbd_gA::SHOOTING_REJECTION);
    g.initialize();
  } catch (std::exception & x) {
    printf("{\"loaded\":false,\"error\":\"%s\"}\n", x.what());
    return 0;
  }
  struct NearOneThird : public bxdecay0::i_random
  {
    verif::Rng r{5, 1414};
    long n = 0;
    double operator()() override
    {
      if (n >= 9000) throw verif::tape_exhausted();
      return (n++ % 3 == 2) ? 1.0 - 1e-9 : r.uniform();
    }
  } t;
  long accepted = 0, runs = 0;
  double w1 = -1, w2 = -1;
  for (int k = 0; k < 20; k++) {
    t.n = 0;
    double e1 = -1, e2 = -1;
    runs++;
    try {
      g.shoot_e1_e2(t, e1, e2);
      // accepted: legitimate only on the maximum node (1.5, 1.5)
      if (!(std::fabs(e1 - 1.5) < 1e-3 && std::fabs(e2 - 1.5) < 1e-3)) {
        if (accepted++ == 0) { w1 = e1; w2 = e2; }
      }
    } catch (verif::tape_exhausted &) {
    }
  }
  // and with the acceptance draw at 1e-300 a pair comes back at once (the table is not empty)
  struct TinyThird : public bxdecay0::i_random
  {
    verif::Rng r{6, 1414};
    long n = 0;
    double operator()() override { return (n++ % 3 == 2) ? 1e-300 : r.uniform(); }
  } t2;
  double a1 = -1, a2 = -1;
  bool returns = true;
  try {
    g.shoot_e1_e2(t2, a1, a2);
  } catch (std::exception &) {
    returns = false;
  }
  printf("{\"loaded\":true,\"runs\":%ld,\"accepted_away_from_the_maximum\":%ld,\"witness\":[%.9g,%.9g],\"control_returns\":%s}\n", runs, accepted, w1, w2, returns ? "true" : "false");
  return 0;
}
