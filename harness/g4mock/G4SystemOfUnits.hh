#ifndef VERIF_G4MOCK_UNITS_HH
#define VERIF_G4MOCK_UNITS_HH
#include "globals.hh"
using CLHEP::MeV;
using CLHEP::keV;
using CLHEP::GeV;
using CLHEP::second;
using CLHEP::nanosecond;
using CLHEP::millimeter;
using CLHEP::degree;
#endif
