#ifndef VERIF_G4MOCK_VUPGA_HH
#define VERIF_G4MOCK_VUPGA_HH
#include "G4Event.hh"
class G4VUserPrimaryGeneratorAction
{
public:
  G4VUserPrimaryGeneratorAction() = default;
  virtual ~G4VUserPrimaryGeneratorAction() = default;
  virtual void GeneratePrimaries(G4Event *) = 0;
};
#endif
