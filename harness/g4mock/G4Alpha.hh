#ifndef VERIF_G4MOCK_Alpha_HH
#define VERIF_G4MOCK_Alpha_HH
#include "G4ParticleDefinition.hh"
class G4Alpha
{
public:
  static G4ParticleDefinition * AlphaDefinition()
  {
    static G4ParticleDefinition d("alpha", 3727.379, 2, 1000020040);
    return &d;
  }
  static G4ParticleDefinition * Definition() { return AlphaDefinition(); }
};
#endif
