#ifndef VERIF_G4MOCK_Gamma_HH
#define VERIF_G4MOCK_Gamma_HH
#include "G4ParticleDefinition.hh"
class G4Gamma
{
public:
  static G4ParticleDefinition * GammaDefinition()
  {
    static G4ParticleDefinition d("gamma", 0.0, 0, 22);
    return &d;
  }
  static G4ParticleDefinition * Definition() { return GammaDefinition(); }
};
#endif
