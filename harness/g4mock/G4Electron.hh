#ifndef VERIF_G4MOCK_Electron_HH
#define VERIF_G4MOCK_Electron_HH
#include "G4ParticleDefinition.hh"
class G4Electron
{
public:
  static G4ParticleDefinition * ElectronDefinition()
  {
    static G4ParticleDefinition d("e-", 0.51099891, -1, 11);
    return &d;
  }
  static G4ParticleDefinition * Definition() { return ElectronDefinition(); }
};
#endif
