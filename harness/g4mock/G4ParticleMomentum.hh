#ifndef VERIF_G4MOCK_PARTICLEMOMENTUM_HH
#define VERIF_G4MOCK_PARTICLEMOMENTUM_HH
#include "G4ThreeVector.hh"
typedef G4ThreeVector G4ParticleMomentum;
#endif
