#ifndef VERIF_G4MOCK_THREEVECTOR_HH
#define VERIF_G4MOCK_THREEVECTOR_HH
#include "globals.hh"
class G4ThreeVector
{
public:
  G4ThreeVector(double x_ = 0, double y_ = 0, double z_ = 0) : dx(x_), dy(y_), dz(z_) {}
  double x() const { return dx; }
  double y() const { return dy; }
  double z() const { return dz; }
  void set(double x_, double y_, double z_) { dx = x_; dy = y_; dz = z_; }
  double mag2() const { return dx * dx + dy * dy + dz * dz; }
  double mag() const { return std::sqrt(mag2()); }
  G4ThreeVector unit() const
  {
    double m = mag();
    if (m > 0) return G4ThreeVector(dx / m, dy / m, dz / m);
    return *this;
  }
  G4ThreeVector operator*(double a) const { return G4ThreeVector(dx * a, dy * a, dz * a); }
  bool operator==(const G4ThreeVector & o) const { return dx == o.dx && dy == o.dy && dz == o.dz; }
private:
  double dx, dy, dz;
};
#endif
