// Minimal recording stand-in for the Geant4 classes used by the BxDecay0 Geant4 extension (C17).
// Geant4 is not installable offline; the extension sources themselves are compiled unmodified against this.
#ifndef VERIF_G4MOCK_GLOBALS_HH
#define VERIF_G4MOCK_GLOBALS_HH
#include <cmath>
#include <iostream>
#include <string>
#include <vector>
typedef double G4double;
typedef int G4int;
typedef bool G4bool;
typedef std::string G4String;
#define G4cout std::cout
#define G4cerr std::cerr
#define G4endl std::endl
enum G4ExceptionSeverity { FatalException, FatalErrorInArgument, RunMustBeAborted, EventMustBeAborted, JustWarning };
namespace g4mock {
  struct Recorder
  {
    int abort_run = 0;
    int exceptions = 0;
    std::string last_exception;
  };
  inline Recorder & recorder()
  {
    static Recorder r;
    return r;
  }
} // namespace g4mock
inline void G4Exception(const char * origin, const char * code, G4ExceptionSeverity, const char * description)
{
  g4mock::recorder().exceptions++;
  g4mock::recorder().last_exception = std::string(origin) + code + ": " + description;
}
// CLHEP units with their real values (a dropped unit factor must be a factor 1e9, not invisible)
namespace CLHEP {
  static const double MeV = 1.0;
  static const double keV = 1.e-3;
  static const double GeV = 1.e+3;
  static const double nanosecond = 1.0;
  static const double second = 1.e+9;
  static const double millimeter = 1.0;
  static const double degree = 3.14159265358979323846 / 180.0;
} // namespace CLHEP
#endif
