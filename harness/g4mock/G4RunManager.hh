#ifndef VERIF_G4MOCK_RUNMANAGER_HH
#define VERIF_G4MOCK_RUNMANAGER_HH
#include "globals.hh"
class G4RunManager
{
public:
  static G4RunManager * GetRunManager()
  {
    static G4RunManager m;
    return &m;
  }
  void AbortRun(bool = false) { g4mock::recorder().abort_run++; }
};
#endif
