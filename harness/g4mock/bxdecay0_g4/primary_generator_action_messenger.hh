// Empty stand-in for the messenger (UI commands are outside C17); found first through the include path order.
#ifndef VERIF_G4MOCK_PGA_MESSENGER_HH
#define VERIF_G4MOCK_PGA_MESSENGER_HH
namespace bxdecay0_g4 {
  class PrimaryGeneratorAction;
  class PrimaryGeneratorActionMessenger
  {
  public:
    explicit PrimaryGeneratorActionMessenger(PrimaryGeneratorAction *) {}
  };
} // namespace bxdecay0_g4
#endif
