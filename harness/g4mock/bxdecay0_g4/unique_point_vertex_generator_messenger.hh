#ifndef VERIF_G4MOCK_UPVG_MESSENGER_HH
#define VERIF_G4MOCK_UPVG_MESSENGER_HH
namespace bxdecay0_g4 {
  class UniquePointVertexGenerator;
  class UniquePointVertexGeneratorMessenger
  {
  public:
    explicit UniquePointVertexGeneratorMessenger(UniquePointVertexGenerator *) {}
  };
} // namespace bxdecay0_g4
#endif
