#ifndef VERIF_G4MOCK_PARTICLEGUN_HH
#define VERIF_G4MOCK_PARTICLEGUN_HH
#include "G4Event.hh"
#include "G4ParticleMomentum.hh"
// Same data members and the same SetParticleMomentum / GeneratePrimaryVertex semantics as Geant4's G4ParticleGun
class G4ParticleGun
{
public:
  G4ParticleGun() { SetInitialValues(); }
  explicit G4ParticleGun(G4int numberofparticles)
  {
    SetInitialValues();
    NumberOfParticlesToBeGenerated = numberofparticles;
  }
  G4ParticleGun(G4ParticleDefinition * particleDef, G4int numberofparticles = 1)
  {
    SetInitialValues();
    NumberOfParticlesToBeGenerated = numberofparticles;
    SetParticleDefinition(particleDef);
  }
  virtual ~G4ParticleGun() = default;
  virtual void GeneratePrimaryVertex(G4Event * evt)
  {
    if (particle_definition == nullptr) {
      G4Exception("G4ParticleGun::GeneratePrimaryVertex()", "Event0109", FatalException, "Particle definition is not defined.");
      return;
    }
    for (G4int i = 0; i < NumberOfParticlesToBeGenerated; ++i) {
      G4MockPrimary p;
      p.definition = particle_definition;
      p.position = particle_position;
      p.time = particle_time;
      p.direction = particle_momentum_direction;
      p.kinetic_energy = particle_energy;
      p.total_momentum = particle_momentum;
      p.charge = particle_charge;
      evt->primaries.push_back(p);
    }
  }
  void SetParticleDefinition(G4ParticleDefinition * aParticleDefinition)
  {
    particle_definition = aParticleDefinition;
    particle_charge = particle_definition->GetPDGCharge();
    if (particle_momentum > 0.0) {
      G4double mass = particle_definition->GetPDGMass();
      particle_energy = std::sqrt(particle_momentum * particle_momentum + mass * mass) - mass;
    }
  }
  void SetParticleEnergy(G4double aKineticEnergy)
  {
    particle_energy = aKineticEnergy;
    particle_momentum = 0.0;
  }
  void SetParticleMomentum(G4double aMomentum)
  {
    if (particle_definition == nullptr) {
      particle_momentum = aMomentum;
      particle_energy = aMomentum;
    } else {
      G4double mass = particle_definition->GetPDGMass();
      particle_momentum = aMomentum;
      particle_energy = std::sqrt(particle_momentum * particle_momentum + mass * mass) - mass;
    }
  }
  void SetParticleMomentum(G4ParticleMomentum aMomentum)
  {
    if (particle_definition == nullptr) {
      particle_momentum_direction = aMomentum.unit();
      particle_momentum = aMomentum.mag();
      particle_energy = aMomentum.mag();
    } else {
      G4double mass = particle_definition->GetPDGMass();
      particle_momentum = aMomentum.mag();
      particle_momentum_direction = aMomentum.unit();
      particle_energy = std::sqrt(particle_momentum * particle_momentum + mass * mass) - mass;
    }
  }
  void SetParticleMomentumDirection(G4ParticleMomentum aMomDirection) { particle_momentum_direction = aMomDirection.unit(); }
  void SetParticlePosition(G4ThreeVector aPosition) { particle_position = aPosition; }
  void SetParticleTime(G4double aTime) { particle_time = aTime; }
  void SetParticleCharge(G4double aCharge) { particle_charge = aCharge; }
  void SetParticlePolarization(G4ThreeVector aVal) { particle_polarization = aVal; }
  void SetNumberOfParticles(G4int i) { NumberOfParticlesToBeGenerated = i; }
  G4ParticleDefinition * GetParticleDefinition() const { return particle_definition; }
protected:
  virtual void SetInitialValues()
  {
    NumberOfParticlesToBeGenerated = 1;
    particle_definition = nullptr;
    particle_momentum_direction = G4ParticleMomentum(1., 0., 0.);
    particle_energy = 1.0 * CLHEP::GeV;
    particle_momentum = 0.0;
    particle_position = G4ThreeVector();
    particle_time = 0.0;
    particle_polarization = G4ThreeVector();
    particle_charge = 0.0;
  }
  G4int NumberOfParticlesToBeGenerated = 0;
  G4ParticleDefinition * particle_definition = nullptr;
  G4ParticleMomentum particle_momentum_direction;
  G4double particle_energy = 0.0;
  G4double particle_momentum = 0.0;
  G4double particle_charge = 0.0;
  G4ThreeVector particle_position;
  G4double particle_time = 0.0;
  G4ThreeVector particle_polarization;
};
#endif
