#ifndef VERIF_G4MOCK_Positron_HH
#define VERIF_G4MOCK_Positron_HH
#include "G4ParticleDefinition.hh"
class G4Positron
{
public:
  static G4ParticleDefinition * PositronDefinition()
  {
    static G4ParticleDefinition d("e+", 0.51099891, 1, -11);
    return &d;
  }
  static G4ParticleDefinition * Definition() { return PositronDefinition(); }
};
#endif
