#ifndef VERIF_G4MOCK_PARTICLEDEFINITION_HH
#define VERIF_G4MOCK_PARTICLEDEFINITION_HH
#include "globals.hh"
class G4ParticleDefinition
{
public:
  G4ParticleDefinition(const std::string & n, double m, double q, int pdg) : name(n), mass(m), charge(q), pdgcode(pdg) {}
  const std::string & GetParticleName() const { return name; }
  double GetPDGMass() const { return mass; }
  double GetPDGCharge() const { return charge; }
  int GetPDGEncoding() const { return pdgcode; }
private:
  std::string name;
  double mass, charge;
  int pdgcode;
};
#endif
