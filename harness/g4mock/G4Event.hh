#ifndef VERIF_G4MOCK_EVENT_HH
#define VERIF_G4MOCK_EVENT_HH
#include "G4ParticleDefinition.hh"
#include "G4ThreeVector.hh"
// what GeneratePrimaryVertex pushes: one vertex (position, time) with its primaries
struct G4MockPrimary
{
  const G4ParticleDefinition * definition = nullptr;
  G4ThreeVector position;
  double time = 0;
  G4ThreeVector direction;
  double kinetic_energy = 0;
  double total_momentum = 0;
  double charge = 0;
};
class G4Event
{
public:
  std::vector<G4MockPrimary> primaries;
};
#endif
