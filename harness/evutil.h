// Small helpers over bxdecay0::event shared by the harness programs.
#ifndef VERIF_EVUTIL_H
#define VERIF_EVUTIL_H

#include <cmath>
#include <cstdio>
#include <cstring>
#include <sstream>
#include <string>
#include <vector>

#include <bxdecay0/event.h>
#include <bxdecay0/particle.h>
#include <bxdecay0/particle_utils.h>

namespace verif {

  inline double mass_of(int code)
  {
    switch (code) {
    case 1: return 0.0;           // gamma
    case 2: case 3: return 0.51099906; // positron / electron (decay0_emass)
    case 47: return 3727.417;     // alpha
    default: return 0.0;
    }
  }

  inline double ekin(const bxdecay0::particle & p)
  {
    int code = (int)p.get_code();
    double m = mass_of(code);
    double pp = p.get_p();
    if (m == 0.0) return pp;
    return std::sqrt(pp * pp + m * m) - m;
  }

  inline bool same_bits(double a, double b) { return std::memcmp(&a, &b, sizeof a) == 0; }

  inline bool particles_bit_identical(const bxdecay0::particle & a, const bxdecay0::particle & b)
  {
    return a.get_code() == b.get_code() && same_bits(a.get_time(), b.get_time())
           && same_bits(a.get_px(), b.get_px()) && same_bits(a.get_py(), b.get_py())
           && same_bits(a.get_pz(), b.get_pz());
  }

  inline bool events_bit_identical(const bxdecay0::event & a, const bxdecay0::event & b, bool with_header = true)
  {
    if (with_header) {
      if (a.get_generator() != b.get_generator()) return false;
      if (!same_bits(a.get_time(), b.get_time())) return false;
    }
    const auto & pa = a.get_particles();
    const auto & pb = b.get_particles();
    if (pa.size() != pb.size()) return false;
    for (size_t i = 0; i < pa.size(); i++)
      if (!particles_bit_identical(pa[i], pb[i])) return false;
    return true;
  }

  inline std::string jnum(double v)
  {
    char buf[48];
    if (std::isnan(v)) return "\"nan\"";
    if (std::isinf(v)) return v > 0 ? "\"inf\"" : "\"-inf\"";
    snprintf(buf, sizeof buf, "%.17g", v);
    return buf;
  }

  inline std::string jstr(const std::string & s)
  {
    std::string o = "\"";
    for (unsigned char c : s) {
      if (c == '"' || c == '\\') { o += '\\'; o += (char)c; }
      else if (c < 0x20 || c >= 0x7f) { char b[8]; snprintf(b, sizeof b, "\\u%04x", c); o += b; }
      else o += (char)c;
    }
    return o + "\"";
  }

  inline std::string event_json(const bxdecay0::event & e)
  {
    std::ostringstream o;
    o << "{\"gen\":" << jstr(e.get_generator()) << ",\"t\":" << jnum(e.get_time()) << ",\"p\":[";
    bool first = true;
    for (const auto & p : e.get_particles()) {
      if (!first) o << ",";
      first = false;
      o << "[" << (int)p.get_code() << "," << jnum(p.get_time()) << "," << jnum(p.get_px()) << ","
        << jnum(p.get_py()) << "," << jnum(p.get_pz()) << "]";
    }
    o << "]}";
    return o.str();
  }

  // branch signature: photons/alphas as species:keV, e-/e+ as bare species, e.g. "3,1:1001"
  inline std::string signature(const bxdecay0::event & e, size_t upto = (size_t)-1)
  {
    std::string s;
    size_t n = 0;
    char buf[48];
    for (const auto & p : e.get_particles()) {
      if (n > upto) break;
      int c = (int)p.get_code();
      if (c == 2 || c == 3) snprintf(buf, sizeof buf, "%s%d", n ? "," : "", c); // continuous energies do not name a branch
      else snprintf(buf, sizeof buf, "%s%d:%ld", n ? "," : "", c, std::lround(ekin(p) * 1000.0));
      s += buf;
      ++n;
    }
    return s;
  }

} // namespace verif

#endif
