// C17: the real Geant4 primary-generator action of the extension, compiled against the recording stand-in
// of harness/g4mock, monitored against the library API and the core driver.
// usage: c17_g4 <seed> <n_transfer_configs> <events_per_config> <scratch dir>
#include <cmath>
#include <thread>
#include <atomic>
#include <cstdlib>
#include <fstream>
#include <limits>
#include <memory>
#include <random>
#include <set>
#include <sstream>
#include <unistd.h>

// the extension's own sources, unmodified
#include "bxdecay0_g4/primary_generator_action.cc"
#include "bxdecay0_g4/unique_point_vertex_generator.cc"
#include "bxdecay0_g4/vertex_generator_interface.cc"
// the core tool (bxdecay0-run's driver) as the refusal oracle
#include "bxdecay0_driver.cpp"

#include "diffcore_port.h"

using namespace verif;
typedef bxdecay0_g4::PrimaryGeneratorAction PGA;

struct CountingVertexGenerator : public bxdecay0_g4::VertexGeneratorInterface
{
  long shots = 0;
  Rng r{77, 77};
  G4ThreeVector last;
  void ShootVertex(G4ThreeVector & v) override
  {
    shots++;
    last = G4ThreeVector(r.uniform() * 100 - 50, r.uniform() * 100 - 50, r.uniform() * 100 - 50);
    v = last;
  }
};

static int pdg_of(int code)
{
  switch (code) {
  case 1: return 22;
  case 2: return -11;
  case 3: return 11;
  case 47: return 1000020040;
  }
  return 0;
}

int main(int argc, char ** argv)
{
  if (argc < 5) return 2;
  uint64_t seed = strtoull(argv[1], 0, 10);
  int nconf = atoi(argv[2]), nev = atoi(argv[3]);
  std::string scratch = argv[4];
  Rng r(seed, 1717);
  std::map<std::string, Mismatch> mm;
  auto fail = [&](const std::string & key, const std::string & detail) {
    Mismatch & x = mm[key];
    if (x.count++ == 0) {
      x.key = key;
      x.detail = detail;
    }
  };
  // keep the extension's chatter away from the JSON stream
  int fd = dup(1);
  dup2(2, 1);
  OUT = fdopen(fd, "w");

  // ------------------------------------------------------------- (1) transfer of particles
  static const char * BKG[] = {"Co60", "Bi214+Po214", "Na22", "Am241", "K40", "Tl208", "Bi207+Pb207m", "Y88", "Ra226", "Eu152"};
  struct D { const char * n; int l, m; };
  static const D DBD[] = {{"Mo100", 0, 1}, {"Mo100", 1, 3}, {"Cd106", 0, 9}, {"Cd106", 1, 11}, {"Zr96", 0, 20}, {"Nd150", 2, 1}, {"Se82", 0, 17}, {"Ca48", 2, 7},
                          {"Zn70", 0, 5}, {"Zn70", 0, 5}, {"Zn70", 0, 4}}; // window-capable modes: energy windows (both bounds, lower only, upper only)
  long primaries = 0, events = 0, refused_events = 0;
  std::set<std::string> classes;
  std::string sample;
  // every third action object is reused for the next configuration (SetConfiguration on a live action that already
  // generated events: the new seed/nuclide must take effect exactly as on a fresh action)
  std::unique_ptr<PGA> live;
  CountingVertexGenerator live_cvg;
  for (int ci = 0; ci < nconf; ci++) {
    PGA::ConfigurationInterface cfg;
    bool dbd = r.below(2) == 0;
    cfg.seed = 1 + (int)r.below(1000000);
    if (dbd) {
      const D & d = DBD[r.below(11)];
      cfg.decay_category = "dbd";
      cfg.nuclide = d.n;
      cfg.dbd_level = d.l;
      cfg.dbd_mode = d.m;
      if (d.m == 4 || d.m == 5) {
        int wk = (int)r.below(4); // 0 none, 1 both bounds, 2 lower bound only, 3 upper bound only (Zn70: Q = 0.997 MeV)
        if (wk == 1 || wk == 2) cfg.dbd_min_energy_MeV = 0.125 + 0.125 * (double)r.below(3);
        if (wk == 1 || wk == 3) cfg.dbd_max_energy_MeV = 0.625 + 0.125 * (double)r.below(3);
      }
    } else {
      cfg.decay_category = "background";
      cfg.nuclide = BKG[r.below(10)];
    }
    // momentum-direction lock through the action's own configuration (labels, ranks, angles in degrees)
    static const struct { const char * label; bxdecay0::particle_code code; } MDL_LABELS[] = {
        {"e-", bxdecay0::ELECTRON}, {"electron", bxdecay0::ELECTRON}, {"e+", bxdecay0::POSITRON}, {"positron", bxdecay0::POSITRON}, {"g", bxdecay0::GAMMA},
        {"gamma", bxdecay0::GAMMA},  {"a", bxdecay0::ALPHA},          {"alpha", bxdecay0::ALPHA}, {"*", bxdecay0::INVALID_PARTICLE},  {"all", bxdecay0::INVALID_PARTICLE}};
    bxdecay0::particle_code mdl_code = bxdecay0::INVALID_PARTICLE;
    if (r.below(5) < 2) {
      int li = (int)r.below(10);
      cfg.use_mdl = true;
      cfg.mdl_target_name = MDL_LABELS[li].label;
      mdl_code = MDL_LABELS[li].code;
      cfg.mdl_target_rank = (int)r.below(3) - 1;
      cfg.mdl_cone_longitude = 360.0 * r.uniform();
      cfg.mdl_cone_colatitude = 180.0 * r.uniform();
      cfg.mdl_cone_aperture = 5.0 + 55.0 * r.uniform();
      cfg.mdl_cone_aperture2 = r.below(3) == 0 ? 10.0 + 30.0 * r.uniform() : -1.0;
      cfg.mdl_error_on_missing_particle = r.below(3) == 0;
    }
    int vmode = (int)r.below(3); // 0 none, 1 unique point, 2 counting random
    std::string lab = cfg.decay_category + "/" + cfg.nuclide + fmt("/vertex%d", vmode);
    if (cfg.use_mdl) lab += std::string("/mdl:") + cfg.mdl_target_name.c_str() + (cfg.mdl_cone_aperture2 >= 0 ? "/rect" : "");
    if (cfg.dbd_min_energy_MeV > 0 || cfg.dbd_max_energy_MeV > 0) lab += fmt("/window%s%s", cfg.dbd_min_energy_MeV > 0 ? "-min" : "", cfg.dbd_max_energy_MeV > 0 ? "-max" : "");
    classes.insert(lab);
    // expected events: the library API with the same engine and seed
    std::default_random_engine gen(cfg.seed);
    bxdecay0::std_random prng(gen);
    bxdecay0::decay0_generator ref;
    ref.set_decay_category(dbd ? bxdecay0::decay0_generator::DECAY_CATEGORY_DBD : bxdecay0::decay0_generator::DECAY_CATEGORY_BACKGROUND);
    ref.set_decay_isotope(cfg.nuclide);
    if (dbd) {
      ref.set_decay_dbd_level(cfg.dbd_level);
      ref.set_decay_dbd_mode((bxdecay0::dbd_mode_type)cfg.dbd_mode);
      if (cfg.dbd_min_energy_MeV > 0 || cfg.dbd_max_energy_MeV > 0)
        ref.set_decay_dbd_esum_range(cfg.dbd_min_energy_MeV > 0 ? cfg.dbd_min_energy_MeV : std::numeric_limits<double>::quiet_NaN(),
                                     cfg.dbd_max_energy_MeV > 0 ? cfg.dbd_max_energy_MeV : std::numeric_limits<double>::quiet_NaN());
    }
    if (cfg.use_mdl) {
      auto op = std::make_shared<bxdecay0::momentum_direction_lock_event_op>();
      const double d2r = M_PI / 180.0;
      int rank = cfg.mdl_target_rank < 0 ? -1 : cfg.mdl_target_rank;
      if (cfg.mdl_cone_aperture2 >= 0.0)
        op->set_with_aperture_rectangular_cut(mdl_code, rank, cfg.mdl_cone_longitude * d2r, cfg.mdl_cone_colatitude * d2r, cfg.mdl_cone_aperture * d2r, cfg.mdl_cone_aperture2 * d2r,
                                              cfg.mdl_error_on_missing_particle);
      else op->set(mdl_code, rank, cfg.mdl_cone_longitude * d2r, cfg.mdl_cone_colatitude * d2r, cfg.mdl_cone_aperture * d2r, cfg.mdl_error_on_missing_particle);
      ref.add_operation(op);
    }
    ref.initialize(prng);
    bool reuse = (ci % 3) != 0 && live;
    if (!reuse) live.reset(new PGA(0));
    PGA & action = *live;
    CountingVertexGenerator & cvg = live_cvg;
    G4ThreeVector point(r.uniform() * 10, -r.uniform() * 10, r.uniform());
    bxdecay0_g4::UniquePointVertexGenerator * upvg = new bxdecay0_g4::UniquePointVertexGenerator(point);
    if (reuse) {
      lab += "/reconfigured";
      classes.insert(lab);
      if (ci % 6 == 1) cfg.seed = cfg.seed; // (seed differs from the previous configuration by construction)
    }
    if (vmode == 1) action.SetVertexGenerator(upvg); // owned by the action
    else delete upvg;
    if (vmode == 2) action.SetVertexGenerator(cvg);
    if (vmode == 0 && reuse) {
      // a reused action may still hold the vertex generator of the previous configuration: ask for its own vertex
      vmode = action.HasVertexGenerator() ? 3 : 0;
    }
    if (reuse && ci % 3 == 2) {
      // the path the UI commands take: 'destroy', then the working configuration is filled field by field - only the fields the
      // request needs - and flagged as changed.  After 'destroy' the working configuration is the default one.
      lab += "/destroy+grab";
      classes.insert(lab);
      action.DestroyConfiguration();
      {
        const PGA::ConfigurationInterface & got = action.GetConfiguration();
        const PGA::ConfigurationInterface def;
        std::string stale;
        if (got.decay_category != def.decay_category) stale += " decay_category";
        if (got.nuclide != def.nuclide) stale += " nuclide";
        if (got.seed != def.seed) stale += " seed";
        if (got.dbd_mode != def.dbd_mode) stale += " dbd_mode";
        if (got.dbd_level != def.dbd_level) stale += " dbd_level";
        if (got.dbd_min_energy_MeV != def.dbd_min_energy_MeV) stale += " dbd_min_energy_MeV";
        if (got.dbd_max_energy_MeV != def.dbd_max_energy_MeV) stale += " dbd_max_energy_MeV";
        if (got.debug != def.debug) stale += " debug";
        if (got.use_mdl != def.use_mdl) stale += " use_mdl";
        if (got.mdl_target_name != def.mdl_target_name) stale += " mdl_target_name";
        if (got.mdl_target_rank != def.mdl_target_rank) stale += " mdl_target_rank";
        if (got.mdl_cone_longitude != def.mdl_cone_longitude) stale += " mdl_cone_longitude";
        if (got.mdl_cone_colatitude != def.mdl_cone_colatitude) stale += " mdl_cone_colatitude";
        if (got.mdl_cone_aperture != def.mdl_cone_aperture) stale += " mdl_cone_aperture";
        if (got.mdl_cone_aperture2 != def.mdl_cone_aperture2) stale += " mdl_cone_aperture2";
        if (got.mdl_error_on_missing_particle != def.mdl_error_on_missing_particle) stale += " mdl_error_on_missing_particle";
        if (!stale.empty()) fail("destroy|stale-field", lab + ": after DestroyConfiguration() the working configuration still carries the previous request's:" + stale);
      }
      PGA::ConfigurationInterface & w = action.GrabConfiguration();
      w.decay_category = cfg.decay_category;
      w.nuclide = cfg.nuclide;
      w.seed = cfg.seed;
      if (dbd) {
        w.dbd_mode = cfg.dbd_mode;
        w.dbd_level = cfg.dbd_level;
        if (cfg.dbd_min_energy_MeV > 0) w.dbd_min_energy_MeV = cfg.dbd_min_energy_MeV;
        if (cfg.dbd_max_energy_MeV > 0) w.dbd_max_energy_MeV = cfg.dbd_max_energy_MeV;
      }
      if (cfg.use_mdl) {
        w.use_mdl = true;
        w.mdl_target_name = cfg.mdl_target_name;
        w.mdl_target_rank = cfg.mdl_target_rank;
        w.mdl_cone_longitude = cfg.mdl_cone_longitude;
        w.mdl_cone_colatitude = cfg.mdl_cone_colatitude;
        w.mdl_cone_aperture = cfg.mdl_cone_aperture;
        if (cfg.mdl_cone_aperture2 >= 0) w.mdl_cone_aperture2 = cfg.mdl_cone_aperture2;
        if (cfg.mdl_error_on_missing_particle) w.mdl_error_on_missing_particle = true;
      }
      action.SetConfigHasChanged(true);
    } else {
      action.SetConfiguration(cfg);
    }
    int aborts0 = g4mock::recorder().abort_run;
    // the gun the action publishes can be touched by the application (GetParticleGun(), '/gun/number N'): whatever it holds before
    // an event, the action still produces exactly one primary per BxDecay0 particle
    const bool touch_gun = (ci % 4 == 1);
    if (touch_gun) {
      lab += "/gun-touched";
      classes.insert(lab);
    }
    for (int ie = 0; ie < nev; ie++) {
      bxdecay0::event e;
      bool ref_threw = false;
      try {
        ref.shoot(prng, e);
      } catch (std::exception &) {
        ref_threw = true; // the core refuses this event (momentum-direction lock with error_on_missing_particle and no such particle)
      }
      if (touch_gun && action.GetParticleGun() != nullptr) {
        action.GetParticleGun()->SetNumberOfParticles(2 + ie % 3);
        action.GetParticleGun()->SetParticleTime(123.0);
        action.GetParticleGun()->SetParticleEnergy(7.0);
      }
      G4Event g4ev;
      long shots0 = cvg.shots;
      bool g4_threw = false;
      int aborts_ev = g4mock::recorder().abort_run;
      try {
        action.GeneratePrimaries(&g4ev);
      } catch (std::exception & x) {
        g4_threw = true;
        if (!ref_threw) {
          fail("transfer|exception", lab + ": GeneratePrimaries raised " + x.what());
          break;
        }
      }
      if (ref_threw) {
        events++;
        refused_events++;
        if (!g4_threw && g4mock::recorder().abort_run == aborts_ev && !g4ev.primaries.empty())
          fail("transfer|pushes-what-the-core-refuses", lab + fmt(": the core generator refuses event %d (exception) but the action pushed %zu primaries", ie, g4ev.primaries.size()));
        if (g4mock::recorder().abort_run != aborts_ev) aborts0 = g4mock::recorder().abort_run; // a refusal by AbortRun is a refusal
        continue;
      }
      events++;
      const auto & pp = e.get_particles();
      if (g4ev.primaries.size() != pp.size()) {
        fail("transfer|count", lab + fmt(": %zu BxDecay0 particles, %zu Geant4 primaries (event %d)", pp.size(), g4ev.primaries.size(), ie));
        continue;
      }
      if (vmode == 2 && cvg.shots - shots0 != 1) fail("transfer|vertex-shots", lab + fmt(": ShootVertex called %ld times for one event", cvg.shots - shots0));
      G4ThreeVector want_vertex = vmode == 0 ? G4ThreeVector(0, 0, 0) : (vmode == 1 ? point : cvg.last);
      if (vmode == 3) want_vertex = g4ev.primaries.empty() ? G4ThreeVector() : g4ev.primaries[0].position; // inherited generator: only "common vertex" is checked
      for (size_t i = 0; i < pp.size(); i++) {
        const G4MockPrimary & q = g4ev.primaries[i];
        primaries++;
        if (q.definition == nullptr || q.definition->GetPDGEncoding() != pdg_of((int)pp[i].get_code())) {
          fail("transfer|species", lab + fmt(": particle %zu code %d became '%s'", i, (int)pp[i].get_code(), q.definition ? q.definition->GetParticleName().c_str() : "null"));
          continue;
        }
        // momentum vector in MeV, rebuilt the way Geant4 does from direction, kinetic energy and its own mass
        double m = q.definition->GetPDGMass();
        double pmag = std::sqrt(q.kinetic_energy * (q.kinetic_energy + 2 * m)) / CLHEP::MeV;
        double px = q.direction.x() * pmag, py = q.direction.y() * pmag, pz = q.direction.z() * pmag;
        double want = pp[i].get_p();
        double d = std::fabs(px - pp[i].get_px()) + std::fabs(py - pp[i].get_py()) + std::fabs(pz - pp[i].get_pz());
        // Geant4 carries (direction, kinetic energy): T = sqrt(p^2+m^2) - m loses (m+T)/T digits for slow particles, and p rebuilt from T
        // inherits dp = dT (T+m)/p with dT of a few ulps of (m+T): that is the representation, not the action
        const double cond = 16 * std::numeric_limits<double>::epsilon() * (m / CLHEP::MeV + q.kinetic_energy / CLHEP::MeV) * (m / CLHEP::MeV + q.kinetic_energy / CLHEP::MeV) / (want > 0 ? want : 1.0);
        if (!(d <= 1e-9 * want + 1e-15 + 3 * cond) || !(std::fabs(q.total_momentum / CLHEP::MeV - want) <= 1e-12 * want))
          fail("transfer|momentum", lab + fmt(": particle %zu momentum (%.12g,%.12g,%.12g) MeV became (%.12g,%.12g,%.12g) MeV (|p| %.12g vs %.12g)", i, pp[i].get_px(), pp[i].get_py(),
                                              pp[i].get_pz(), px, py, pz, want, q.total_momentum / CLHEP::MeV));
        double t_s = q.time / CLHEP::second;
        if (!(std::fabs(t_s - pp[i].get_time()) <= 1e-12 * std::fabs(pp[i].get_time()) + 1e-300))
          fail("transfer|time", lab + fmt(": particle %zu time %.15g s became %.15g s (%.15g in Geant4 units)", i, pp[i].get_time(), t_s, q.time));
        if (!(q.position == want_vertex)) fail("transfer|vertex", lab + fmt(": particle %zu vertex (%g,%g,%g), expected (%g,%g,%g)", i, q.position.x(), q.position.y(), q.position.z(), want_vertex.x(), want_vertex.y(), want_vertex.z()));
      }
      if (sample.empty() && pp.size() >= 2) {
        sample = "{\"config\":" + jstr(lab) + ",\"bxdecay0_event\":" + event_json(e) + ",\"first_primary\":{\"name\":" + jstr(g4ev.primaries[0].definition->GetParticleName())
                 + ",\"time_g4_units\":" + jnum(g4ev.primaries[0].time) + ",\"kinetic_energy\":" + jnum(g4ev.primaries[0].kinetic_energy) + "}}";
      }
    }
    if (g4mock::recorder().abort_run != aborts0) fail("transfer|abort-on-valid", lab + ": AbortRun was called for a valid configuration");
  }

  // ------------------------------------------------------------- (2) validation like the core tool
  long cells = 0, refused_both = 0, accepted_both = 0;
  static const char * CATS[] = {"dbd", "background", "", "foo"};
  static const char * NUCS[] = {"Mo100", "Co60", "Cs137+Ba137m", "Cs137", "Xx99", "", "Bi214", "Po214", "K40", "mo100", "Ca48+Sc48", "Zr96"};
  static const int MODES[] = {0, 1, 3, 12, 25, -1};
  static const int LEVELS[] = {-1, 0, 1, 7};
  static const int SEEDS[] = {-1, 1, 12345};
  struct VCell { const char * cat; const char * nuc; int mode, level, sd; double wmin, wmax; };
  std::vector<VCell> vcells;
  for (const char * cat : CATS)
    for (const char * nuc : NUCS)
      for (int mode : MODES)
        for (int level : LEVELS)
          for (int sd : SEEDS) {
            // mode/level only matter for dbd: for the other categories a few stray values (a record filled from one struct for every
            // request: defaults, "unset" markers, left-overs) - the core ignores them, so must the action
            if (std::string(cat) != "dbd" && !((mode == 0 && level == 0) || (mode == -1 && level == -1) || (mode == 25 && level == 7) || (mode == 1 && level == -1))) continue;
            vcells.push_back({cat, nuc, mode, level, sd, -1.0, -1.0});
          }
  // energy windows: both bounds, lower only, upper only, inverted, above the range - on a window-capable mode (Zn70 mode 5) and on one that is not
  {
    static const double W[][2] = {{0.25, 0.75}, {0.25, -1.0}, {-1.0, 0.75}, {0.75, 0.25}, {2.5, -1.0}, {2.5, 3.5}};
    static const int WM[] = {5, 1};
    for (int wm : WM)
      for (auto & w : W) vcells.push_back({"dbd", "Zn70", wm, 0, 77, w[0], w[1]});
  }
  for (const VCell & vc : vcells) {
          {
            const char * cat = vc.cat;
            const char * nuc = vc.nuc;
            const int mode = vc.mode, level = vc.level, sd = vc.sd;
            cells++;
            std::string cell = fmt("%s|%s|m%d|L%d|seed%d", cat, nuc, mode, level, sd);
            if (vc.wmin > 0 || vc.wmax > 0) cell += fmt("|window[%g,%g]", vc.wmin, vc.wmax);
            // ---- the core tool
            bool core_refuses = false;
            std::string core_why;
            try {
              bxdecay0::driver::config_type dc;
              dc.seed = (unsigned int)sd;
              dc.nb_events = 1;
              if (std::string(cat) == "dbd") dc.decay_category = bxdecay0::decay0_generator::DECAY_CATEGORY_DBD;
              else if (std::string(cat) == "background") dc.decay_category = bxdecay0::decay0_generator::DECAY_CATEGORY_BACKGROUND;
              else throw std::logic_error("unsupported decay category");  // what the command line parser says
              if (sd < 0) throw std::logic_error("invalid seed");                // what the command line parser says
              dc.nuclide = nuc;
              if (std::string(cat) == "dbd") {
                if (mode < 1 || mode > 24) throw std::logic_error("invalid DBD decay mode"); // command line parser
                if (level < 0) throw std::logic_error("invalid daughter level");             // command line parser
                dc.level = level;
                dc.dbd_mode = (bxdecay0::dbd_mode_type)mode;
                if (vc.wmin > 0) dc.energy_min_MeV = vc.wmin; // as the command line parser does for -e / -E
                if (vc.wmax > 0) dc.energy_max_MeV = vc.wmax;
              }
              dc.basename = scratch + "/core";
              bxdecay0::driver drv(dc);
              drv.run();
            } catch (std::exception & x) {
              core_refuses = true;
              core_why = x.what();
            }
            // ---- the Geant4 action
            bool g4_refuses = false;
            std::string g4_why;
            size_t nprim = 0;
            {
              PGA::ConfigurationInterface cfg;
              cfg.decay_category = cat;
              cfg.nuclide = nuc;
              cfg.seed = sd;
              cfg.dbd_mode = mode;
              cfg.dbd_level = level;
              cfg.dbd_min_energy_MeV = vc.wmin;
              cfg.dbd_max_energy_MeV = vc.wmax;
              PGA action(0);
              int a0 = g4mock::recorder().abort_run;
              G4Event ev;
              try {
                action.SetConfiguration(cfg);
                action.GeneratePrimaries(&ev);
              } catch (std::exception & x) {
                g4_refuses = true;
                g4_why = std::string("exception: ") + x.what();
              }
              if (g4mock::recorder().abort_run != a0) {
                g4_refuses = true;
                g4_why += " AbortRun";
              }
              nprim = ev.primaries.size();
              if (nprim == 0 && !g4_refuses) {
                g4_refuses = true;
                g4_why = "no primary generated";
              }
            }
            if (core_refuses && g4_refuses) refused_both++;
            if (!core_refuses && !g4_refuses) accepted_both++;
            if (core_refuses && !g4_refuses)
              fail(std::string("validation|g4-accepts-what-core-refuses|") + (std::string(cat) == "background" ? "background" : "dbd"),
                   cell + fmt(": the core tool refuses (%s) but the Geant4 action generates %zu primaries", core_why.substr(0, 90).c_str(), nprim));
            if (!core_refuses && g4_refuses)
              fail(std::string("validation|g4-refuses-what-core-accepts|") + (std::string(cat) == "background" ? "background" : "dbd"),
                   cell + ": the core tool accepts but the Geant4 action refuses (" + g4_why.substr(0, 120) + ")");
            if (g4_refuses && nprim > 0 && g4_why.find("AbortRun") != std::string::npos)
              fail("validation|aborted-but-primaries", cell + ": AbortRun was called and primaries were still pushed");
          }
  }
  // ------------------------------------------------------------- (3) one action per worker thread (Geant4-MT): each worker's primaries
  // are its own decay.  The interleaving is made deterministic: worker A's vertex generator holds A inside GeneratePrimaries (after its
  // decay was generated, before its particles are handed over) until worker B has completed an event of another nuclide.
  long mt_rounds = 0;
  {
    struct BlockingVertexGenerator : public bxdecay0_g4::VertexGeneratorInterface
    {
      std::atomic<int> * stage = nullptr;
      void ShootVertex(G4ThreeVector & v) override
      {
        v = G4ThreeVector(1, 2, 3);
        if (stage != nullptr && stage->load() == 0) {
          stage->store(1);                                                  // A is inside
          while (stage->load() != 2) std::this_thread::yield();            // until B is done
        }
      }
    };
    static const char * NA[] = {"Co60", "K40", "Na22"};
    static const char * NB[] = {"Am241", "Bi214+Po214", "Tl208"};
    for (int round = 0; round < 3; round++) {
      mt_rounds++;
      PGA::ConfigurationInterface ca, cb;
      ca.decay_category = "background";
      ca.nuclide = NA[round];
      ca.seed = 11 + round;
      cb.decay_category = "background";
      cb.nuclide = NB[round];
      cb.seed = 22 + round;
      auto reference = [&](const PGA::ConfigurationInterface & c, bxdecay0::event & e) {
        std::default_random_engine gen(c.seed);
        bxdecay0::std_random prng(gen);
        bxdecay0::decay0_generator ref;
        ref.set_decay_category(bxdecay0::decay0_generator::DECAY_CATEGORY_BACKGROUND);
        ref.set_decay_isotope(c.nuclide);
        ref.initialize(prng);
        ref.shoot(prng, e);
      };
      bxdecay0::event ea, eb;
      reference(ca, ea);
      reference(cb, eb);
      std::atomic<int> stage{0};
      PGA A(0), B(0);
      BlockingVertexGenerator bv;
      bv.stage = &stage;
      A.SetVertexGenerator(bv);
      A.SetConfiguration(ca);
      B.SetConfiguration(cb);
      G4Event ga, gb;
      std::string xa, xb;
      std::thread ta([&] {
        try {
          A.GeneratePrimaries(&ga);
        } catch (std::exception & x) {
          xa = x.what();
        }
        stage.store(2); // (if A never reached its vertex generator, B must not wait for ever)
      });
      std::thread tb([&] {
        for (long spin = 0; stage.load() == 0 && spin < 200000000L; spin++) std::this_thread::yield();
        try {
          B.GeneratePrimaries(&gb);
        } catch (std::exception & x) {
          xb = x.what();
        }
        stage.store(2);
      });
      ta.join();
      tb.join();
      auto same = [&](const bxdecay0::event & e, const G4Event & g) {
        const auto & pp = e.get_particles();
        if (g.primaries.size() != pp.size()) return false;
        for (size_t i = 0; i < pp.size(); i++) {
          const G4MockPrimary & q = g.primaries[i];
          if (q.definition == nullptr || q.definition->GetPDGEncoding() != pdg_of((int)pp[i].get_code())) return false;
          if (std::fabs(q.total_momentum / CLHEP::MeV - pp[i].get_p()) > 1e-9 * pp[i].get_p() + 1e-15) return false;
        }
        return true;
      };
      if (!xa.empty() || !xb.empty()) fail("workers|exception", fmt("two workers (%s, %s): ", NA[round], NB[round]) + xa + " / " + xb);
      else if (!same(ea, ga) || !same(eb, gb))
        fail("workers|primaries-of-another-worker", fmt("two actions on two threads (%s seed %d, %s seed %d): worker A was held between generating its decay and handing it over while worker B "
                                                         "completed an event; A pushed %zu primaries (its own decay has %zu particles), B %zu (%zu)",
                                                         NA[round], ca.seed, NB[round], cb.seed, ga.primaries.size(), ea.get_particles().size(), gb.primaries.size(), eb.get_particles().size()));
    }
  }
  fprintf(OUT, "{\"worker_rounds\":%ld,", mt_rounds);
  fprintf(OUT, "\"events\":%ld,\"primaries\":%ld,\"transfer_classes\":%zu,\"validation_cells\":%ld,\"refused_by_both\":%ld,\"accepted_by_both\":%ld,\"sample\":%s,", events, primaries,
          classes.size(), cells, refused_both, accepted_both, sample.empty() ? "null" : sample.c_str());
  emit_mismatches(OUT, "mismatches", mm);
  fprintf(OUT, "}\n");
  fflush(OUT);
  return 0;
}
