// C06: accept/reject of double-beta requests through the porcelain API.
// usage: c06_accept <specfile> <seed> <shard> <nshards>
//   lines: <name> <level> <mode> <wkind 0 none|1 window> <e1> <e2> <nshots>
// Output: one compact line per cell:  <index> <A|R> <shots_ok> <wf_fail_key|-> <error text>
#include <cstdlib>
#include <fstream>
#include <functional>
#include <limits>
#include <set>
#include <sstream>

#include <bxdecay0/bb_utils.h>
#include <bxdecay0/decay0_generator.h>

#include "diffcore_port.h"

using namespace verif;

int main(int argc, char ** argv)
{
  if (argc < 5) return 2;
  uint64_t seed = strtoull(argv[2], 0, 10);
  int shard = atoi(argv[3]), nshards = atoi(argv[4]);
  std::ifstream in(argv[1]);
  std::string line;
  long idx = -1;
  if (shard < 4) {
    // scripted history on one object: a gA request that fails because its table cannot be read (data directory wrong), an ordinary
    // life, reset(), the data directory put right - the legal gA request must then be accepted as on a new object
    const char * good = getenv("BXDECAY0_DBD_GA_DATA_DIR");
    static const char * ISO[] = {"Se82", "Mo100", "Cd116", "Nd150"};
    static const bxdecay0::dbd_mode_type GA[] = {bxdecay0::DBDMODE_21, bxdecay0::DBDMODE_22, bxdecay0::DBDMODE_23, bxdecay0::DBDMODE_24};
    if (good != nullptr) {
      const std::string keep = good;
      auto request = [&](bxdecay0::decay0_generator & G, const char * iso, bxdecay0::dbd_mode_type m) {
        try {
          G.set_decay_category(bxdecay0::decay0_generator::DECAY_CATEGORY_DBD);
          G.set_decay_isotope(iso);
          G.set_decay_dbd_level(0);
          G.set_decay_dbd_mode(m);
          Tape t(seed, 4242);
          G.initialize(t);
          bxdecay0::event e;
          G.shoot(t, e);
          return std::string();
        } catch (std::exception & x) {
          return std::string(x.what());
        }
      };
      for (int variant = 0; variant < 4; variant++) {
        bxdecay0::decay0_generator G, F;
        // (an existing directory without the table: the failure then comes from the table loader itself)
        std::string empty_dir = argv[1];
        empty_dir = empty_dir.substr(0, empty_dir.find_last_of('/'));
        setenv("BXDECAY0_DBD_GA_DATA_DIR", variant % 2 == 0 ? empty_dir.c_str() : "/nonexistent/bxdecay0-gA-data", 1);
        std::string e1 = request(G, ISO[shard], GA[shard]);
        setenv("BXDECAY0_DBD_GA_DATA_DIR", keep.c_str(), 1);
        if (variant >= 2) {
          // an ordinary life in between, entered by just correcting the settings of the un-initialised object (no reset() first)
          request(G, "Mo100", bxdecay0::DBDMODE_1);
        }
        G.reset();
        std::string e2 = request(G, ISO[shard], GA[shard]);
        std::string ef = request(F, ISO[shard], GA[shard]);
        if (e1.empty()) fprintf(OUT, "P gA request accepted although the data directory does not exist\n");
        if (e2.empty() != ef.empty())
          fprintf(OUT, "P %s/0/gA mode %d after a failed table load%s and reset(): %s; a new object: %s\n", ISO[shard], (int)GA[shard], variant >= 2 ? ", an ordinary life" : "",
                  e2.empty() ? "accepted" : ("refused (" + e2.substr(0, 90) + ")").c_str(), ef.empty() ? "accepted" : ("refused (" + ef.substr(0, 90) + ")").c_str());
        else
          fprintf(OUT, "P ok\n");
      }
    }
  }
  if (shard == 5) {
    // every mode label maps to one mode and back - and nothing else maps to a mode: a label cut short (or extended) is not a label
    const auto & modes = bxdecay0::dbd_modes();
    std::set<std::string> labels;
    for (auto & kv : modes) labels.insert(kv.second.unique_label);
    int bad = 0;
    std::string first;
    for (auto & l : labels) {
      std::vector<std::string> variants;
      for (size_t k = 0; k < l.size(); k++) variants.push_back(l.substr(0, k));
      variants.push_back(l + "x");
      variants.push_back(" " + l);
      variants.push_back(l + " ");
      for (auto & v : variants) {
        if (labels.count(v)) continue;
        bxdecay0::dbd_mode_type m = bxdecay0::DBDMODE_UNDEF;
        try {
          m = bxdecay0::dbd_mode_from_label(v);
        } catch (std::exception &) {
        }
        if (m != bxdecay0::DBDMODE_UNDEF) {
          if (bad++ == 0) first = "'" + v + "' -> mode " + std::to_string((int)m);
        }
      }
      if (bxdecay0::dbd_mode_label(bxdecay0::dbd_mode_from_label(l)) != l) {
        if (bad++ == 0) first = "'" + l + "' does not map back";
      }
    }
    if (bad) fprintf(OUT, "P %d strings that are not mode labels resolve to a mode, e.g. %s\n", bad, first.c_str());
    else fprintf(OUT, "P ok\n");
  }
  if (shard == 4) {
    // an incomplete request is not a request: without a daughter level (never set, or not set again after reset()) the rules name no
    // transition - refused, whatever the defaults of the object are
    for (int variant = 0; variant < 2; variant++) {
      bxdecay0::decay0_generator G;
      std::string e;
      try {
        if (variant == 1) {
          G.set_decay_category(bxdecay0::decay0_generator::DECAY_CATEGORY_DBD);
          G.set_decay_isotope("Se82");
          G.set_decay_dbd_level(0);
          G.set_decay_dbd_mode(bxdecay0::DBDMODE_4);
          Tape t0(seed, 4243);
          G.initialize(t0);
          G.reset();
        }
        G.set_decay_category(bxdecay0::decay0_generator::DECAY_CATEGORY_DBD);
        G.set_decay_isotope("Mo100");
        G.set_decay_dbd_mode(bxdecay0::DBDMODE_1);
        Tape t(seed, 4244);
        G.initialize(t);
      } catch (std::exception & x) {
        e = x.what();
      }
      if (e.empty()) fprintf(OUT, "P a double-beta request without daughter level (%s) is accepted\n", variant ? "object reset before" : "new object");
      else fprintf(OUT, "P ok\n");
    }
  }
  while (std::getline(in, line)) {
    idx++;
    if (line.empty() || (idx % nshards) != shard) continue;
    std::istringstream ls(line);
    std::string name;
    int level, mode, wkind, nshots;
    double e1, e2;
    ls >> name >> level >> mode >> wkind >> e1 >> e2 >> nshots;
    if (e1 == -999.0) e1 = std::numeric_limits<double>::quiet_NaN(); // half-open windows: one limit undefined
    if (e2 == -999.0) e2 = std::numeric_limits<double>::quiet_NaN();
    bxdecay0::decay0_generator g;
    Tape t(seed, (uint64_t)idx);
    std::string err;
    bool accepted = false;
    int shots_ok = 0;
    std::string wf = "-";
    try {
      g.set_decay_category(bxdecay0::decay0_generator::DECAY_CATEGORY_DBD);
      g.set_decay_isotope(name);
      g.set_decay_dbd_level(level);
      g.set_decay_dbd_mode((bxdecay0::dbd_mode_type)mode);
      if (wkind) g.set_decay_dbd_esum_range(e1, e2);
      g.initialize(t);
      accepted = g.is_initialized();
    } catch (std::exception & x) {
      err = x.what();
      if (g.is_initialized()) err = "THROWS-BUT-INITIALIZED: " + err;
    }
    {
      // the same request on ONE long-lived generator object that went through every earlier request of this shard (reset in
      // between): the verdict must not depend on what the object did before
      static bxdecay0::decay0_generator reused;
      bool acc2 = false;
      std::string err2;
      try {
        reused.reset();
        reused.set_decay_category(bxdecay0::decay0_generator::DECAY_CATEGORY_DBD);
        reused.set_decay_isotope(name);
        reused.set_decay_dbd_level(level);
        // the mode goes in by its label, over a valid mode set just before: a known label must select its own mode, an unknown one
        // (requests with a mode outside 1..24) must leave the generator without a mode, not with the earlier one
        reused.set_decay_dbd_mode(bxdecay0::DBDMODE_1);
        {
          std::string label = "no-such-mode-" + std::to_string(mode);
          const auto & modes = bxdecay0::dbd_modes();
          auto it = modes.find((bxdecay0::dbd_mode_type)mode);
          if (it != modes.end()) label = it->second.unique_label;
          try {
            reused.set_decay_dbd_mode_by_label(label);
          } catch (std::exception &) {
            reused.set_decay_dbd_mode(bxdecay0::DBDMODE_UNDEF); // a setter that refuses an unknown label outright is fine too
          }
        }
        if (wkind) reused.set_decay_dbd_esum_range(e1, e2);
        Tape t2(seed, (uint64_t)idx);
        reused.initialize(t2);
        acc2 = reused.is_initialized();
        if (acc2 && nshots > 0) {
          bxdecay0::event ea;
          reused.shoot(t2, ea);
        }
      } catch (std::exception & x) {
        err2 = x.what();
      }
      if (acc2 != accepted) err = std::string("HISTORY-DEPENDENT-VERDICT: a generator object used before ") + (acc2 ? "accepts" : "rejects (" + err2.substr(0, 80) + ")") + "; fresh object: " + err;
    }
    {
      // the request is the set of settings, not the order of the setter calls: the same five setters in a permuted order (every third
      // request also passes through the other category first) must get the same verdict
      bxdecay0::decay0_generator perm;
      std::vector<std::function<void()>> calls;
      calls.push_back([&] { perm.set_decay_category(bxdecay0::decay0_generator::DECAY_CATEGORY_DBD); });
      calls.push_back([&] { perm.set_decay_isotope(name); });
      calls.push_back([&] { perm.set_decay_dbd_level(level); });
      calls.push_back([&] { perm.set_decay_dbd_mode((bxdecay0::dbd_mode_type)mode); });
      if (wkind) calls.push_back([&] { perm.set_decay_dbd_esum_range(e1, e2); });
      uint64_t h = hash_str(line) ^ seed;
      for (size_t i = calls.size(); i > 1; i--) {
        std::swap(calls[i - 1], calls[h % i]);
        h /= i;
      }
      bool acc3 = false;
      std::string err3;
      try {
        if (idx % 3 == 0) perm.set_decay_category(bxdecay0::decay0_generator::DECAY_CATEGORY_BACKGROUND);
        for (auto & c : calls) c();
        Tape t3(seed, (uint64_t)idx);
        perm.initialize(t3);
        acc3 = perm.is_initialized();
      } catch (std::exception & x) {
        err3 = x.what();
      }
      if (acc3 != accepted && err.find("HISTORY-DEPENDENT") == std::string::npos)
        err = std::string("ORDER-DEPENDENT-VERDICT: the same settings given in another order of setter calls are ") + (acc3 ? "accepted" : "rejected (" + err3.substr(0, 80) + ")") + "; documented order: "
              + (accepted ? "accepted" : err);
    }
    if (accepted) {
      for (int i = 0; i < nshots; i++) {
        bxdecay0::event e;
        try {
          t.rewind();
          g.shoot(t, e);
          std::string k, d;
          if (!wellformed(e, name, 12.0, k, d)) {
            wf = k;
            break;
          }
          shots_ok++;
        } catch (std::exception & x) {
          wf = std::string("exception:") + x.what();
          break;
        }
        t.reseed(seed, (uint64_t)idx * 1000 + i + 1);
      }
    } else {
      // a rejected request must never yield events
      bxdecay0::event e;
      try {
        g.shoot(t, e);
        wf = "REJECTED-BUT-SHOOTS";
      } catch (std::exception &) {
      }
    }
    for (auto & c : err)
      if (c == '\n') c = ' ';
    fprintf(OUT, "%ld %c %d %s %s\n", idx, accepted ? 'A' : 'R', shots_ok, wf.c_str(), err.substr(0, 260).c_str());
  }
  return 0;
}
