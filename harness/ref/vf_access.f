c Accessors between the C++ harness and the COMMON blocks of the Decay0
c reference (compiled with the same flags as the reference, so the C++ side
c never depends on COMMON layout/padding).
	subroutine vf_getevent(tev,np,npg,pm,pt)
	common/genevent/tevst,npfull,npgeant(100),pmoment(3,100),
     +                  ptime(100)
	dimension npg(100),pm(3,100),pt(100)
	tev=tevst
	np=npfull
	nn=npfull
	if(nn.gt.100) nn=100
	if(nn.lt.0) nn=0
	do i=1,nn
	   npg(i)=npgeant(i)
	   pm(1,i)=pmoment(1,i)
	   pm(2,i)=pmoment(2,i)
	   pm(3,i)=pmoment(3,i)
	   pt(i)=ptime(i)
	enddo
	return
	end

	subroutine vf_clearevent
	common/genevent/tevst,npfull,npgeant(100),pmoment(3,100),
     +                  ptime(100)
	tevst=0.
	npfull=0
	return
	end

	subroutine vf_setenrange(e1,e2)
	character chdspin*4
	common/enrange/ebb1,ebb2,toallevents,levelE,chdspin
	ebb1=e1
	ebb2=e2
c the reference never writes toallevents for modes 9, 11, 12; start from
c the natural default (as for ebb1/ebb2, which its dialog initialises)
	toallevents=1.
	return
	end

	subroutine vf_getenrange(e1,e2,toall,level)
	character chdspin*4
	common/enrange/ebb1,ebb2,toallevents,levelE,chdspin
	e1=ebb1
	e2=ebb2
	toall=toallevents
	level=levelE
	return
	end

	subroutine vf_gethelpbb(z,a,e)
	common/helpbb/Zd,Ad,e0,e1
	z=Zd
	a=Ad
	e=e0
	return
	end

	subroutine vf_getspthe1(tab,smax)
	dimension tab(4300)
	common/vfspthe/spthe1(4300),spmax
	do i=1,4300
	   tab(i)=spthe1(i)
	enddo
	smax=spmax
	return
	end

	subroutine vf_seteta(c)
	dimension c(7)
	common/eta_nme/chi_GTw,chi_Fw,chip_GT,chip_F,chip_T,
     +                 chip_P,chip_R
	chi_GTw=c(1)
	chi_Fw=c(2)
	chip_GT=c(3)
	chip_F=c(4)
	chip_T=c(5)
	chip_P=c(6)
	chip_R=c(7)
	return
	end

	subroutine vf_initpar
	character chfile*40
	common/genbbpar/nevents,ievstart,irndmst,iwrfile,chfile
	common/currentev/icurrent
	nevents=1000000000
	ievstart=1
	irndmst=0
	iwrfile=0
	chfile='no file'
	icurrent=1
	return
	end

c name passed as 16 integer character codes (avoids the hidden length ABI)
	subroutine vf_genbbsub(i2bbs,ichn,ilevel,modebb,istart,ier)
	dimension ichn(16)
	character chn*16
	common/currentev/icurrent
	save chn
c the reference overwrites its chnuclide argument with the canonical name
c at initialisation and tests that canonical name when generating: keep it
	if(istart.ne.1) then
	   do i=1,16
	      chn(i:i)=char(ichn(i))
	   enddo
	endif
	icurrent=1
	is=istart
	call GENBBsub(i2bbs,chn,ilevel,modebb,is,ier)
	return
	end

	subroutine vf_getconst(p,em)
	common/const/pi,emass,datamass(50)
	p=pi
	em=emass
	return
	end

	subroutine vf_setparbeta(z,q)
	common/parbeta/zz,qq
	zz=z
	qq=q
	return
	end

	subroutine vf_setparbeta1(c1,c2,c3,c4)
	common/parbeta1/d1,d2,d3,d4
	d1=c1
	d2=c2
	d3=c3
	d4=c4
	return
	end

	subroutine vf_setparbeta2(kf,c1,c2,c3,c4)
	common/parbeta2/kk,d1,d2,d3,d4
	kk=kf
	d1=c1
	d2=c2
	d3=c3
	d4=c4
	return
	end

	subroutine vf_getsl2(p,n)
	dimension p(48)
	common/bj69sl2/sl2(48)
	n=48
	do i=1,48
	   p(i)=sl2(i)
	enddo
	return
	end

	subroutine vf_getplog69(p,n)
	dimension p(48)
	common/bj69plog/plog69(48)
	n=48
	do i=1,48
	   p(i)=plog69(i)
	enddo
	return
	end
