// C01 Level A: building blocks of the port against the same routines of the reference,
// function by function / mini-event by mini-event (DESIGN.md C01).
// usage: c01_levela <seed> <n_per_block> <fermi_characterised 0|1>
#include <cstdarg>
#include <cstdio>
#include <cstdlib>
#include <functional>
#include <map>
#include <set>
#include <string>

#include <bxdecay0/PbAtShell.h>
#include <bxdecay0/alpha.h>
#include <cstring>
#include <bxdecay0/beta.h>
#include <bxdecay0/beta1.h>
#include <bxdecay0/beta2.h>
#include <bxdecay0/beta_1fu.h>
#include <bxdecay0/electron.h>
#include <bxdecay0/gamma.h>
#include <bxdecay0/nucltransK.h>
#include <bxdecay0/nucltransKL.h>
#include <bxdecay0/nucltransKLM.h>
#include <bxdecay0/nucltransKLM_Pb.h>
#include <bxdecay0/pair.h>
#include <bxdecay0/plog69.h>
#include <bxdecay0/positron.h>
#include <bxdecay0/particle_utils.h>

#include "refshim.h"

using namespace verif;
using namespace bxdecay0;

extern "C" {
void gamma_(double *, double *, double *, double *);
void electron_(double *, double *, double *, double *);
void positron_(double *, double *, double *, double *);
void alpha_(double *, double *, double *, double *);
void pair_(double *, double *, double *, double *);
void beta_(double * Q, double * Z, double * tc, double * th, double * td);
void beta1_(double * Q, double * Z, double * tc, double * th, double * td, double *, double *, double *, double *);
void beta2_(double * Q, double * Z, double * tc, double * th, double * td, int * kf, double *, double *, double *, double *);
void beta_1fu_(double * Q, double * Z, double * tc, double * th, double * td, double *, double *, double *, double *);
void nucltransk_(double *, double *, double *, double *, double *, double *, double *);
void nucltranskl_(double *, double *, double *, double *, double *, double *, double *, double *, double *);
void nucltransklm_(double *, double *, double *, double *, double *, double *, double *, double *, double *, double *, double *);
void nucltransklm_pb_(double *, double *, double *, double *, double *, double *, double *, double *, double *, double *, double *);
void pbatshell_(int *, double *, double *, double *);
void vf_getplog69_(double * p, int * n);
void vf_getsl2_(double * p, int * n);
}

// The screened-lambda2 tables of the first-forbidden-unique betas are filled inside decay0_beta_1fu (local storage) and reach
// decay0_divdif as its first argument; the library calls that kernel through the PLT, so this definition in the executable sees the
// table the port really uses (and forwards to the real kernel).
#include <dlfcn.h>
#include <bxdecay0/divdif.h>
static double g_port_sl2[48];
static bool g_capture_sl2 = false, g_captured_sl2 = false;
namespace bxdecay0 {
  double decay0_divdif(const double * F_, const double * A_, int NN_, double X_, int MM_)
  {
    typedef double (*fn_t)(const double *, const double *, int, double, int);
    static fn_t real = (fn_t)dlsym(RTLD_NEXT, "_ZN8bxdecay013decay0_divdifEPKdS1_idi");
    if (!real) abort();
    if (g_capture_sl2 && NN_ == 48 && !g_captured_sl2) {
      memcpy(g_port_sl2, F_, sizeof g_port_sl2);
      g_captured_sl2 = true;
    }
    return real(F_, A_, NN_, X_, MM_);
  }
}

static FILE * OUT = stdout;
static std::string fmt(const char * f, ...)
{
  char buf[1024];
  va_list ap;
  va_start(ap, f);
  vsnprintf(buf, sizeof buf, f, ap);
  va_end(ap);
  return buf;
}

struct Block
{
  std::string name;
  long n = 0;
  std::set<std::string> distinct;
  std::map<std::string, std::string> fails;
  void fail(const std::string & key, const std::string & d)
  {
    if (!fails.count(key)) fails[key] = d;
  }
  void emit()
  {
    fprintf(OUT, "{\"block\":%s,\"n\":%ld,\"distinct\":%zu,\"fails\":[", jstr(name).c_str(), n, distinct.size());
    bool first = true;
    for (auto & kv : fails) {
      fprintf(OUT, "%s{\"key\":%s,\"detail\":%s}", first ? "" : ",", jstr(kv.first).c_str(), jstr(kv.second).c_str());
      first = false;
    }
    fprintf(OUT, "]}\n");
    fflush(OUT);
  }
};

static Tape tape;

// run one mini-event on both sides with the same tape and compare
static void mini(Block & b, const std::string & params, const std::function<void()> & ref, const std::function<void(event &)> & port,
                 const std::function<bool()> & outputs_equal = nullptr)
{
  RefEvent re;
  event pe;
  tape.rewind();
  vf_clearevent_();
  RefState & s = ref_state();
  bool ref_ok = true;
  s.jb_armed = true;
  if (setjmp(s.jb) != 0) ref_ok = false;
  else ref();
  s.jb_armed = false;
  size_t rd = tape.pos;
  re.fetch();
  tape.rewind();
  bool port_ok = true;
  std::string exc;
  try {
    port(pe);
  } catch (std::exception & x) {
    port_ok = false;
    exc = x.what();
  }
  size_t pd = tape.pos;
  b.n++;
  if (!ref_ok || !port_ok) {
    if (ref_ok != port_ok) b.fail("levelA|" + b.name + "|abort", params + fmt(": reference %s, port %s", ref_ok ? "finished" : "cut by cap", port_ok ? "finished" : exc.c_str()));
    return;
  }
  pe.set_time(0.0);
  CmpResult c = compare_events(re, pe, rd, pd, false);
  b.distinct.insert(re.signature(100) + "/" + std::to_string(rd));
  if (!c.same && !s.port_fermi) {
    // root-cause probe: every kernel that samples a beta spectrum calls fermi(); the recorded difference of the mass constant in fermi
    // (key levelA|fermi|mass-constant, characterised by the fermi block above) flips about one accept/reject decision in 2e5.  Replay
    // the reference with the port's fermi linked in: if it then agrees with the port, this mismatch is that root cause and nothing else.
    s.port_fermi = true;
    RefEvent re2;
    tape.rewind();
    vf_clearevent_();
    bool ok2 = true;
    s.jb_armed = true;
    if (setjmp(s.jb) != 0) ok2 = false;
    else ref();
    s.jb_armed = false;
    size_t rd2 = tape.pos;
    re2.fetch();
    s.port_fermi = false;
    if (ok2) {
      CmpResult c2 = compare_events(re2, pe, rd2, pd, false);
      if (c2.same) {
        b.fail("levelA|fermi|mass-constant", params + ": " + c.detail + " (agrees once the port's fermi is linked into the reference)");
        return;
      }
    }
  }
  if (!c.same) b.fail("levelA|" + b.name + "|" + c.kind, params + ": " + c.detail + " tape=" + tape.prefix_json(std::min<size_t>(std::max(rd, pd), 30)));
  if (outputs_equal && !outputs_equal()) b.fail("levelA|" + b.name + "|output-arg", params + ": returned decay time differs");
}

static double logu(Rng & r, double lo, double hi) { return lo * std::pow(hi / lo, r.uniform()); }
static double pick_thlev(Rng & r) { return r.below(3) == 0 ? 0.0 : logu(r, 1e-13, 1e4); }
static double pick_tclev(Rng & r) { return r.below(2) == 0 ? 0.0 : logu(r, 1e-12, 1e3); }
static bool close_rel(double a, double b) { return std::fabs(a - b) <= 1e-9 * std::fabs(a) + 1e-30; }

int main(int argc, char ** argv)
{
  int fd = dup(1);
  dup2(2, 1);
  OUT = fdopen(fd, "w");
  uint64_t seed = argc > 1 ? strtoull(argv[1], 0, 10) : 1;
  long N = argc > 2 ? atol(argv[2]) : 2000;
  bool fermi_char = argc > 3 && atoi(argv[3]) != 0;
  Rng rng(seed, 0xA1);
  ref_state().tape = &tape;
  ref_state().port_fermi = false; // Level A compares the reference's own kernels
  vf_initpar_();
  uint64_t stream = 1;

  // ---- constants
  {
    Block b;
    b.name = "const";
    double pi, em;
    vf_getconst_(&pi, &em);
    b.n = 2;
    b.distinct.insert("pi");
    b.distinct.insert("emass");
    if (std::fabs(em - decay0_emass()) > 1e-9 * em) b.fail("levelA|const|emass", fmt("reference emass %.10g, port %.10g", em, decay0_emass()));
    b.emit();
  }
  // ---- plog69 table
  {
    Block b;
    b.name = "plog69";
    double p[48];
    int n = 0;
    vf_getplog69_(p, &n);
    for (int i = 0; i < 48; i++) {
      b.n++;
      b.distinct.insert(std::to_string(i));
      if (std::fabs(p[i] - BJ69::plog69[i]) > 1e-12 + 1e-9 * std::fabs(p[i]))
        b.fail("levelA|plog69|entry", fmt("plog69[%d]: reference %.10g, port %.10g", i, p[i], BJ69::plog69[i]));
    }
    b.emit();
  }
  // ---- fermi
  {
    Block b;
    b.name = "fermi";
    std::vector<std::pair<double, double>> pts;
    for (int Z = -92; Z <= 92; Z++)
      for (int j = 0; j <= 24; j++) pts.push_back({(double)Z, 5e-5 * std::pow(10.0, j * (std::log10(10.0 / 5e-5) / 24))});
    for (long i = 0; i < N; i++) pts.push_back({std::floor(-92 + 185 * rng.uniform()), logu(rng, 1e-5, 10.0)});
    double maxplain = 0;
    for (auto ze : pts) {
      double Z = ze.first, E = ze.second;
      double fp = decay0_fermi(Z, E);
      double z1 = Z, e1 = E;
      double fr_plain = fermiref_(&z1, &e1);
      double z2 = Z, e2 = std::max(E, 50.e-6) * 0.511 / decay0_emass();
      double fr_char = fermiref_(&z2, &e2);
      double tol = 1e-11 * std::max(1.0, std::fabs(std::log(std::fabs(fp))));
      double dplain = std::fabs(fp - fr_plain) / std::fabs(fr_plain);
      double dchar = std::fabs(fp - fr_char) / std::fabs(fr_char);
      if (dplain > maxplain) maxplain = dplain;
      b.n++;
      b.distinct.insert(fmt("%g/%.3g", Z, E));
      if (fermi_char) {
        // recorded finding: the port evaluates w = E/m_e + 1 with m_e = 0.51099906, the reference with 0.511.
        // Anything else in fermi.cc must still agree: port(Z,E) == reference(Z, E*0.511/m_e)
        if (!(dchar <= tol)) b.fail("levelA|fermi|beyond-mass-constant", fmt("Z=%g E=%.10g: port %.17g, reference at rescaled energy %.17g (rel %.3g)", Z, E, fp, fr_char, dchar));
        if (dplain > 1e-3) b.fail("levelA|fermi|beyond-mass-constant", fmt("Z=%g E=%.10g: port %.17g vs reference %.17g differ by %.3g (> what the mass constant explains)", Z, E, fp, fr_plain, dplain));
      }
      if (!(dplain <= tol)) b.fail("levelA|fermi|mass-constant", fmt("Z=%g E=%.10g: port %.17g, reference %.17g (rel %.3g): port uses E/%.8f, reference E/0.511", Z, E, fp, fr_plain, dplain, decay0_emass()));
    }
    b.emit();
  }
  // ---- single particles
  struct P1
  {
    const char * name;
    void (*ref)(double *, double *, double *, double *);
    void (*port)(i_random &, event &, double, double, double, double &);
  };
  P1 singles[] = {{"gamma", gamma_, decay0_gamma}, {"electron", electron_, decay0_electron}, {"positron", positron_, decay0_positron},
                  {"alpha", alpha_, decay0_alpha}, {"pair", pair_, decay0_pair}};
  for (auto & s1 : singles) {
    Block b;
    b.name = s1.name;
    for (long i = 0; i < N; i++) {
      double E = logu(rng, 1e-3, 10.0), tc = pick_tclev(rng), th = pick_thlev(rng);
      double tdr = -1, tdp = -2;
      tape.reseed(seed, stream++);
      if (i % 7 == 0) tape.pin(rng.below(4), rng.below(2) ? 1e-12 : 1 - 1e-12);
      mini(b, fmt("%s(E=%.10g,tclev=%.6g,thlev=%.6g)", s1.name, E, tc, th),
           [&] { double e = E, a = tc, h = th; s1.ref(&e, &a, &h, &tdr); },
           [&](event & ev) { s1.port(tape, ev, E, tc, th, tdp); }, [&] { return close_rel(tdr, tdp); });
    }
    b.emit();
  }
  // ---- beta family
  {
    Block b;
    b.name = "beta";
    for (long i = 0; i < N; i++) {
      double Q = logu(rng, 0.005, 6.0), Z = std::floor(-92 + 185 * rng.uniform()), tc = pick_tclev(rng), th = pick_thlev(rng);
      double tdr = -1, tdp = -2;
      tape.reseed(seed, stream++);
      if (i % 5 == 0) tape.pin(rng.below(6), rng.below(2) ? 1e-12 : 1 - 1e-12);
      mini(b, fmt("beta(Q=%.10g,Z=%g,tc=%.6g,th=%.6g)", Q, Z, tc, th),
           [&] { double q = Q, z = Z, a = tc, h = th; beta_(&q, &z, &a, &h, &tdr); },
           [&](event & ev) { decay0_beta(tape, ev, Q, Z, tc, th, tdp); }, [&] { return close_rel(tdr, tdp); });
    }
    b.emit();
  }
  {
    Block b;
    b.name = "beta1";
    for (long i = 0; i < N; i++) {
      double Q = logu(rng, 0.02, 6.0), Z = std::floor(-92 + 185 * rng.uniform()), tc = 0, th = pick_thlev(rng);
      double c[4];
      for (double & v : c) v = rng.below(3) == 0 ? 0.0 : (-0.2 + 0.4 * rng.uniform());
      double tdr = -1, tdp = -2;
      tape.reseed(seed, stream++);
      mini(b, fmt("beta1(Q=%.10g,Z=%g,th=%.6g,c=%.6g,%.6g,%.6g,%.6g)", Q, Z, th, c[0], c[1], c[2], c[3]),
           [&] { double q = Q, z = Z, a = tc, h = th, c1 = c[0], c2 = c[1], c3 = c[2], c4 = c[3]; beta1_(&q, &z, &a, &h, &tdr, &c1, &c2, &c3, &c4); },
           [&](event & ev) { decay0_beta1(tape, ev, Q, Z, tc, th, tdp, c[0], c[1], c[2], c[3]); }, [&] { return close_rel(tdr, tdp); });
    }
    b.emit();
  }
  {
    Block b;
    b.name = "beta2";
    for (long i = 0; i < N; i++) {
      double Q = logu(rng, 0.02, 6.0), Z = std::floor(-92 + 185 * rng.uniform()), tc = 0, th = pick_thlev(rng);
      int kf = 1 + (int)rng.below(4);
      double c[4];
      for (double & v : c) v = rng.below(3) == 0 ? 0.0 : (4 * rng.uniform());
      double tdr = -1, tdp = -2;
      tape.reseed(seed, stream++);
      mini(b, fmt("beta2(Q=%.10g,Z=%g,th=%.6g,kf=%d,c=%.6g,%.6g,%.6g,%.6g)", Q, Z, th, kf, c[0], c[1], c[2], c[3]),
           [&] { double q = Q, z = Z, a = tc, h = th, c1 = c[0], c2 = c[1], c3 = c[2], c4 = c[3]; int k = kf; beta2_(&q, &z, &a, &h, &tdr, &k, &c1, &c2, &c3, &c4); },
           [&](event & ev) { decay0_beta2(tape, ev, Q, Z, tc, th, tdp, kf, c[0], c[1], c[2], c[3]); }, [&] { return close_rel(tdr, tdp); });
    }
    b.emit();
  }
  {
    Block b;
    b.name = "beta_1fu";
    for (long i = 0; i < N; i++) {
      double Q = logu(rng, 0.02, 30.0), Z = std::floor(-92 + 185 * rng.uniform()), tc = 0, th = pick_thlev(rng);
      double c[4];
      for (double & v : c) v = rng.below(3) == 0 ? 0.0 : (-0.2 + 0.4 * rng.uniform());
      double tdr = -1, tdp = -2;
      tape.reseed(seed, stream++);
      mini(b, fmt("beta_1fu(Q=%.10g,Z=%g,th=%.6g,c=%.6g,%.6g,%.6g,%.6g)", Q, Z, th, c[0], c[1], c[2], c[3]),
           [&] { double q = Q, z = Z, a = tc, h = th, c1 = c[0], c2 = c[1], c3 = c[2], c4 = c[3]; beta_1fu_(&q, &z, &a, &h, &tdr, &c1, &c2, &c3, &c4); },
           [&](event & ev) { decay0_beta_1fu(tape, ev, Q, Z, tc, th, tdp, c[0], c[1], c[2], c[3]); }, [&] { return close_rel(tdr, tdp); });
    }
    b.emit();
  }
  // ---- screened lambda2 tables of beta_1fu, entry by entry, for every daughter charge (a table entry off by 2e-4 flips one
  //      accept/reject decision in 1e7 events: invisible to sampling, plain to a table comparison)
  {
    Block b;
    b.name = "sl2-tables";
    for (int Z = 1; Z <= 100; Z++) {
      double Q = 3.5, zz = Z, tc = 0, th = 0, tdr = 0, tdp = 0, c0 = 0;
      // reference: fills common/bj69sl2/ for this Z
      tape.reseed(seed, 9000 + Z);
      tape.rewind();
      vf_clearevent_();
      {
        double q = Q, z = zz, a = tc, h = th, c1 = c0, c2 = c0, c3 = c0, c4 = c0;
        beta_1fu_(&q, &z, &a, &h, &tdr, &c1, &c2, &c3, &c4);
      }
      double rsl2[48];
      int n48 = 0;
      vf_getsl2_(rsl2, &n48);
      // port: the table it hands to the interpolation kernel
      tape.rewind();
      g_captured_sl2 = false;
      g_capture_sl2 = true;
      event ev;
      decay0_beta_1fu(tape, ev, Q, zz, tc, th, tdp, c0, c0, c0, c0);
      g_capture_sl2 = false;
      b.n += 48;
      if (!g_captured_sl2) {
        b.fail("levelA|sl2-tables|not-observed", fmt("Z=%d: the port made no 48-point interpolation call", Z));
        continue;
      }
      bool tabulated = false;
      for (int i = 0; i < 48; i++) {
        if (rsl2[i] != 1.0) tabulated = true;
        if (std::fabs(rsl2[i] - g_port_sl2[i]) > 1e-12)
          b.fail(fmt("levelA|sl2-tables|Z%d", Z), fmt("Z=%d: sl2[%d] (p = %g): reference %.10g, port %.10g", Z, i + 1, std::exp(BJ69::plog69[i]), rsl2[i], g_port_sl2[i]));
      }
      if (tabulated) b.distinct.insert(std::to_string(Z));
    }
    b.emit();
  }
  // ---- nuclear transitions
  for (int variant = 0; variant < 4; variant++) {
    Block b;
    const char * names[] = {"nucltransK", "nucltransKL", "nucltransKLM", "nucltransKLM_Pb"};
    b.name = names[variant];
    for (long i = 0; i < N; i++) {
      double Eg = logu(rng, 0.03, 4.0);
      double EbK = std::min(0.116, 0.9 * Eg) * (0.1 + 0.9 * rng.uniform());
      double EbL = 0.3 * EbK * rng.uniform(), EbM = 0.3 * EbL * rng.uniform();
      double cK = logu(rng, 1e-6, 1e3), cL = logu(rng, 1e-6, 1e3), cM = logu(rng, 1e-6, 1e3);
      if (variant == 3) { EbK = 0.088; EbL = 0.015; EbM = 0.003; if (Eg < 0.1) Eg += 0.1; }
      double cp = (Eg > 1.022 && rng.below(2)) ? logu(rng, 1e-6, 1e-1) : 0.0;
      double tc = pick_tclev(rng), th = pick_thlev(rng);
      double tdr = -1, tdp = -2;
      tape.reseed(seed, stream++);
      // steer the branch draw into each branch boundary region now and then
      if (i % 3 == 0) tape.pin(0, rng.uniform() < 0.5 ? 1 - logu(rng, 1e-12, 1e-1) : logu(rng, 1e-12, 1e-1));
      std::string ps = fmt("%s(Eg=%.10g,EbK=%.6g,cK=%.6g,EbL=%.6g,cL=%.6g,EbM=%.6g,cM=%.6g,cp=%.6g,tc=%.6g,th=%.6g)", names[variant], Eg, EbK, cK, EbL, cL, EbM, cM, cp, tc, th);
      mini(b, ps,
           [&] {
             double eg = Eg, ebk = EbK, ck = cK, ebl = EbL, cl = cL, ebm = EbM, cm = cM, p = cp, a = tc, h = th;
             switch (variant) {
             case 0: nucltransk_(&eg, &ebk, &ck, &p, &a, &h, &tdr); break;
             case 1: nucltranskl_(&eg, &ebk, &ck, &ebl, &cl, &p, &a, &h, &tdr); break;
             case 2: nucltransklm_(&eg, &ebk, &ck, &ebl, &cl, &ebm, &cm, &p, &a, &h, &tdr); break;
             case 3: nucltransklm_pb_(&eg, &ebk, &ck, &ebl, &cl, &ebm, &cm, &p, &a, &h, &tdr); break;
             }
           },
           [&](event & ev) {
             switch (variant) {
             case 0: decay0_nucltransK(tape, ev, Eg, EbK, cK, cp, tc, th, tdp); break;
             case 1: decay0_nucltransKL(tape, ev, Eg, EbK, cK, EbL, cL, cp, tc, th, tdp); break;
             case 2: decay0_nucltransKLM(tape, ev, Eg, EbK, cK, EbL, cL, EbM, cM, cp, tc, th, tdp); break;
             case 3: decay0_nucltransKLM_Pb(tape, ev, Eg, EbK, cK, EbL, cL, EbM, cM, cp, tc, th, tdp); break;
             }
           },
           [&] { return close_rel(tdr, tdp); });
    }
    b.emit();
  }
  // ---- PbAtShell
  {
    Block b;
    b.name = "PbAtShell";
    const int shells[] = {88, 15, 3};
    for (long i = 0; i < N; i++) {
      int k = shells[i % 3];
      double tc = pick_tclev(rng), th = pick_thlev(rng);
      double tdr = -1, tdp = -2;
      tape.reseed(seed, stream++);
      mini(b, fmt("PbAtShell(%d,tc=%.6g,th=%.6g)", k, tc, th), [&] { int kk = k; double a = tc, h = th; pbatshell_(&kk, &a, &h, &tdr); },
           [&](event & ev) {
             PbAtShell(tape, ev, k, tc, th, tdp);
             if (ev.get_particles().empty()) return;
           },
           nullptr);
    }
    b.emit();
  }
  return 0;
}
