// Table-kernel interposer for the sanitizer builds (C08).
// decay0_divdif(F, A, N, x, m) receives two tables of N values that live in the library's read-only data (BJ69::plog69 and friends).
// AddressSanitizer cannot see an index of -1 or N into such a table when the neighbouring bytes are alignment padding or another
// object of the library.  The library calls the kernel through the PLT, so this definition in the executable takes its place:
// it copies both tables into exact-size heap blocks (red zones on both sides) and forwards to the real kernel.
#ifndef VERIF_TABLEWRAP_H
#define VERIF_TABLEWRAP_H
#if defined(__has_feature)
#if __has_feature(address_sanitizer)
#define VERIF_ASAN_BUILD 1
#endif
#endif
#if defined(__SANITIZE_ADDRESS__)
#define VERIF_ASAN_BUILD 1
#endif
#if defined(VERIF_ASAN_BUILD)
#include <dlfcn.h>
#include <atomic>
#include <cstdlib>
#include <cstring>
#include <vector>
#include <bxdecay0/divdif.h>
namespace verif {
  static std::atomic<long> g_divdif_wrapped{0};
}
namespace bxdecay0 {
  double decay0_divdif(const double * F_, const double * A_, int NN_, double X_, int MM_)
  {
    typedef double (*fn_t)(const double *, const double *, int, double, int);
    static fn_t real = (fn_t)dlsym(RTLD_NEXT, "_ZN8bxdecay013decay0_divdifEPKdS1_idi");
    if (!real) abort();
    if (NN_ <= 0) return real(F_, A_, NN_, X_, MM_);
    double * f = (double *)malloc(sizeof(double) * (size_t)NN_);
    double * a = (double *)malloc(sizeof(double) * (size_t)NN_);
    memcpy(f, F_, sizeof(double) * (size_t)NN_);
    memcpy(a, A_, sizeof(double) * (size_t)NN_);
    verif::g_divdif_wrapped++;
    double r = real(f, a, NN_, X_, MM_);
    free(f);
    free(a);
    return r;
  }
}
#define VERIF_TABLEWRAP_ACTIVE 1
#else
namespace verif {
  static long g_divdif_wrapped = 0;
}
#define VERIF_TABLEWRAP_ACTIVE 0
#endif
#endif
