// C11: stored events read back unchanged; the reader delivers exactly the asked window.
// usage: c11_reader <seed> <scratch dir> <maxN> <maxF> <n_roundtrip>
#include <cmath>
#include <cstdlib>
#include <fstream>
#include <memory>
#include <functional>
#include <limits>
#include <set>
#include <sstream>
#include <sys/stat.h>
#include <unistd.h>

#include <bxdecay0/event.h>
#include <bxdecay0/event_reader.h>

#include "diffcore_port.h"

using namespace verif;

static std::string sig15(double v)
{
  char b[64];
  snprintf(b, sizeof b, "%.14e", v); // 15 significant digits
  return b;
}

static const char * LABELS[] = {"Co60", "Bi214+Po214", "Mo100", "Ta180m-B-", "Cs137+Ba137m", "K40", "Xe131m", "Rn222"};

static double hostile_double(Rng & r, bool nonneg)
{
  double v;
  switch (r.below(12)) {
  case 0: v = 0.0; break;
  case 1: v = 1e300 * r.uniform(); break;
  case 2: v = 1e-300 * (1 + r.uniform()); break;
  case 3: v = std::ldexp(1.0, (int)r.below(200) - 100); break;           // exact powers of two
  case 4: v = 0.1 + r.uniform() * 1e-15; break;                          // needs 17 significant digits
  case 5: v = 123456789.123456789 * r.uniform(); break;
  case 6: v = 1.0 - std::ldexp(1.0, -53); break;
  case 7: v = 9.99999999999999e22; break;
  case 8: v = 2.2250738585072014e-308; break;                            // smallest normal
  default: v = std::pow(10.0, -12 + 16 * r.uniform()) * (r.uniform() - 0.3);
  }
  if (!nonneg && r.below(2)) v = -v;
  if (nonneg) v = std::fabs(v);
  return v;
}

static bxdecay0::event random_event(Rng & r, int maxpart, bool hostile)
{
  bxdecay0::event e;
  e.set_generator(LABELS[r.below(8)]);
  if (r.below(8) == 0) {
    // the label is a free whitespace-free token: applications tag productions with it (any length, punctuation)
    std::string lab = LABELS[r.below(8)];
    static const char * parts[] = {"/background", "/production-2026-09", "/run-000123", "_v1.2.3", ":calib", ";x=1", "#7", "@site", "%20"};
    int n = 1 + (int)r.below(12);
    for (int i = 0; i < n; i++) lab += parts[r.below(9)];
    e.set_generator(lab);
  }
  e.set_time(hostile ? hostile_double(r, true) : r.uniform() * 1e4);
  // all six species of the record format (the generators emit four of them; neutrons and protons come from other producers of such files)
  static const bxdecay0::particle_code codes[] = {bxdecay0::GAMMA, bxdecay0::POSITRON, bxdecay0::ELECTRON, bxdecay0::ALPHA, bxdecay0::NEUTRON, bxdecay0::PROTON};
  int n = (int)r.below(maxpart + 1);
  for (int i = 0; i < n; i++) {
    bxdecay0::particle p;
    p.set_code(codes[r.below(6)]);
    // particle times may be negative (an event re-referenced to one of its later particles with shift_particles_time)
    p.set_time(hostile ? hostile_double(r, r.below(3) != 0) : r.uniform() - (r.below(4) == 0 ? 0.5 : 0.0));
    if (hostile) p.set_momentum(hostile_double(r, false), hostile_double(r, false), hostile_double(r, false));
    else p.set_momentum(r.uniform() - 0.5, r.uniform() - 0.5, r.uniform() - 0.5);
    e.add_particle(p);
  }
  return e;
}

// exactly what bxdecay0-run writes per event
static void write_record(std::ostream & out, int id, const bxdecay0::event & e)
{
  out << std::to_string(id) << ' ';
  e.store(out, bxdecay0::event::STORE_EVENT_TIME);
  out << '\n';
}

static std::string cmp15(const bxdecay0::event & a, const bxdecay0::event & b)
{
  if (a.get_generator() != b.get_generator()) return "generator label '" + a.get_generator() + "' -> '" + b.get_generator() + "'";
  if (sig15(a.get_time()) != sig15(b.get_time())) return "event time " + sig15(a.get_time()) + " -> " + sig15(b.get_time());
  const auto & pa = a.get_particles();
  const auto & pb = b.get_particles();
  if (pa.size() != pb.size()) return fmt("particle count %zu -> %zu", pa.size(), pb.size());
  for (size_t i = 0; i < pa.size(); i++) {
    if (pa[i].get_code() != pb[i].get_code()) return fmt("particle %zu species %d -> %d", i, (int)pa[i].get_code(), (int)pb[i].get_code());
    const double x[4] = {pa[i].get_time(), pa[i].get_px(), pa[i].get_py(), pa[i].get_pz()};
    const double y[4] = {pb[i].get_time(), pb[i].get_px(), pb[i].get_py(), pb[i].get_pz()};
    for (int k = 0; k < 4; k++)
      if (sig15(x[k]) != sig15(y[k])) return fmt("particle %zu field %d: ", i, k) + sig15(x[k]) + " -> " + sig15(y[k]);
  }
  return "";
}

int main(int argc, char ** argv)
{
  if (argc < 6) return 2;
  uint64_t seed = strtoull(argv[1], 0, 10);
  std::string dir = argv[2];
  int maxN = atoi(argv[3]), maxF = atoi(argv[4]);
  long nround = atol(argv[5]);
  mkdir(dir.c_str(), 0755);
  Rng r(seed, 1111);
  std::map<std::string, Mismatch> mm;
  auto fail = [&](const std::string & key, const std::string & detail, const std::string & witness) {
    Mismatch & x = mm[key];
    if (x.count++ == 0) {
      x.key = key;
      x.detail = detail;
      x.steer = witness;
    }
  };
  // silence the reader's end-of-life report
  {
    int fd = dup(1);
    (void)fd;
  }
  std::streambuf * clog_buf = std::clog.rdbuf();
  std::ofstream devnull("/dev/null");
  std::clog.rdbuf(devnull.rdbuf());

  // ---------------------------------------------------------------- (1) contents round trip
  long rt_events = 0;
  std::string sample;
  for (long it = 0; it < nround; it++) {
    bool hostile = it % 2 == 0;
    int nev = 1 + (int)r.below(5);
    std::vector<bxdecay0::event> evs;
    std::string path = dir + "/rt.d0t";
    {
      std::ofstream f(path);
      // event::store sets the precision it needs itself: a third of the rounds leave the fresh stream at its default precision (6),
      // a third at a lower one, a third do what bxdecay0-run does
      if (it % 3 == 0) f.precision(15);
      else if (it % 3 == 1) f.precision(3);
      // ... and it writes numbers: whatever notation and base the caller's stream was left in by earlier output (a table in fixed
      // notation, addresses in hexadecimal), the record holds decimal numbers with 15 significant digits
      switch (it % 11) {
      case 3: f << std::fixed; break;
      case 5: f << std::hex; break;
      case 7: f << std::scientific << std::uppercase; break;
      case 9: f << std::showpos << std::showpoint; break;
      }
      for (int i = 0; i < nev; i++) {
        evs.push_back(random_event(r, it % 50 == 0 ? 100 : 12, hostile));
        write_record(f, i, evs.back());
      }
    }
    bxdecay0::event_reader::config_type cfg;
    cfg.event_files.push_back(path);
    try {
      bxdecay0::event_reader rd(cfg);
      for (int i = 0; i < nev; i++) {
        rt_events++;
        if (!rd.has_next_event()) {
          fail("roundtrip|missing-event", fmt("event %d of %d was written but has_next_event() is false", i, nev), path);
          break;
        }
        bxdecay0::event back;
        rd.load_next_event(back);
        std::string d = cmp15(evs[i], back);
        if (!d.empty()) {
          fail(std::string("roundtrip|") + (hostile ? "hostile-values" : "ordinary-values"), d + " [written: " + event_json(evs[i]) + "]", event_json(back));
          break;
        }
      }
      if (rd.has_next_event()) fail("roundtrip|extra-event", "reader announces more events than were written", path);
    } catch (std::exception & x) {
      fail(std::string("roundtrip|exception|") + (hostile ? "hostile-values" : "ordinary-values"), std::string("reader raised: ") + x.what() + " on " + event_json(evs[0]), path);
    }
    if (sample.empty() && it == 3) {
      std::ifstream f(path);
      std::stringstream ss;
      ss << f.rdbuf();
      sample = ss.str().substr(0, 300);
    }
  }

  // ---------------------------------------------------------------- (2) window, small scope exhaustive
  long sessions = 0, partitions = 0, delivered_total = 0;
  std::set<std::string> classes;
  for (int N = 0; N <= maxN; N++) {
    std::vector<bxdecay0::event> stream;
    for (int i = 0; i < N; i++) {
      bxdecay0::event e = random_event(r, 3, false);
      e.set_time((double)(i + 1)); // the event time names the position in the stream
      stream.push_back(e);
    }
    for (int F = 1; F <= maxF; F++) {
      // all compositions of N into F non-negative parts; each empty part is an empty or a whitespace-only file
      std::vector<int> part(F, 0);
      std::function<void(int, int)> rec = [&](int k, int left) {
        if (k == F - 1) {
          part[k] = left;
          partitions++;
          std::vector<std::string> files;
          int id = 0;
          for (int f = 0; f < F; f++) {
            std::string p = dir + fmt("/w%d.d0t", f);
            std::ostringstream out;
            if ((partitions + f) % 3 != 1) out.precision(15); // (see the round-trip section: the library sets what it needs)
            if (part[f] == 0 && ((partitions + f) % 2)) out << "\n  \n\t\n";
            for (int j = 0; j < part[f]; j++, id++) write_record(out, id, stream[id]);
            std::string text = out.str();
            // every fifth file ends right after its last number: no blank separator, no final newline (what is left when a tool or an
            // editor strips trailing white space) - the records themselves are complete
            if ((partitions + f) % 5 == 2)
              while (!text.empty() && std::isspace((unsigned char)text.back())) text.pop_back();
            {
              std::ofstream fo(p);
              fo << text;
            }
            files.push_back(p);
          }
          std::string pstr;
          for (int f = 0; f < F; f++) pstr += (f ? "+" : "") + std::to_string(part[f]);
          for (int start = 0; start <= N + 2; start++) {
            // window sizes: the small scope, and the largest representable ones ("no limit" written as INT_MAX) whose end start+max-1
            // lies at or beyond INT_MAX: the window is then everything from start on
            std::vector<int> mxs;
            for (int mx = 0; mx <= N + 2; mx++) mxs.push_back(mx);
            if ((partitions + start) % 4 == 0) {
              mxs.push_back(std::numeric_limits<int>::max());
              mxs.push_back(std::numeric_limits<int>::max() - start);
              if (start >= 1) mxs.push_back(std::numeric_limits<int>::max() - start + 1);
            }
            for (int mx : mxs)
              for (int pattern = 0; pattern < 9; pattern++) {
                // pattern: (extra has_next calls before each load, extra after the last)
                int extra_before = pattern % 3, extra_after = pattern / 3;
                sessions++;
                std::vector<int> expect;
                for (int i = start; i < N && (mx == 0 || i < (long long)start + mx); i++) expect.push_back(i);
                std::string cls = fmt("N%d/F%d/%s/%s", N, F, start >= N ? "start>=N" : "start<N", mx == 0 ? "all" : (mx > 1000000 ? "max-huge" : ((long long)start + mx > N ? "max-beyond" : "max-inside")));
                classes.insert(cls);
                std::string wit = fmt("N=%d files=%s start=%d max=%d extra has_next before=%d after=%d", N, pstr.c_str(), start, mx, extra_before, extra_after);
                bxdecay0::event_reader::config_type cfg;
                cfg.event_files = files;
                cfg.start_event = start;
                cfg.max_nb_events = mx;
                std::vector<int> got;
                std::string problem, pkey;
                try {
                  // every third session runs on ONE long-lived reader object that is re-configured for each session (whatever state the
                  // previous session left it in: mid-stream, terminated, or a configuration that raised); it must behave like a fresh one
                  static bxdecay0::event_reader reused(0);
                  std::unique_ptr<bxdecay0::event_reader> fresh_rd;
                  bxdecay0::event_reader * rdp = nullptr;
                  if (sessions % 3 == 1) {
                    if (reused.is_configured()) reused.reset_configuration();
                    if (sessions % 4 == 1 && N >= 1) {
                      // an abandoned session first: the whole stream is opened, all events but the last k are read (so the reader sits in
                      // one of the last files with events still unread), and the configuration is dropped there
                      bxdecay0::event_reader::config_type all;
                      all.event_files = files;
                      try {
                        reused.set_configuration(all);
                        int leave = (int)(sessions / 4 % 2); // 0: stop after the first event, 1: leave exactly one unread
                        int toread = leave ? N - 1 : 1;
                        for (int q = 0; q < toread && reused.has_next_event(); q++) {
                          bxdecay0::event ex;
                          reused.load_next_event(ex);
                        }
                      } catch (std::exception &) {
                      }
                      if (reused.is_configured()) reused.reset_configuration();
                      classes.insert(cls + "/after-abandoned-session");
                    }
                    if (sessions % 4 == 3 && !files.empty()) { // (never right after an abandoned session: the first configuration after it must be the real one)
                      // now and then the object first sees a configuration that raises half-way (the second file does not exist and the
                      // start index lies beyond the first file): the valid configuration that follows must behave as on a fresh object
                      bxdecay0::event_reader::config_type bad;
                      bad.event_files = {files[0], dir + "/does-not-exist.d0t", files[0], files[0]};
                      bad.start_event = 1000000;
                      try {
                        reused.set_configuration(bad);
                      } catch (std::exception &) {
                      }
                      if (reused.is_configured()) reused.reset_configuration();
                    }
                    reused.set_configuration(cfg);
                    rdp = &reused;
                    classes.insert(cls + "/reused-reader");
                  } else {
                    fresh_rd.reset(new bxdecay0::event_reader(cfg));
                    rdp = fresh_rd.get();
                  }
                  bxdecay0::event_reader & rd = *rdp;
                  int guard = 0;
                  while (true) {
                    bool h = rd.has_next_event();
                    for (int x = 0; x < extra_before; x++)
                      if (rd.has_next_event() != h) { problem = "has_next_event() is not idempotent"; pkey = "has_next-not-idempotent"; }
                    if (!h) break;
                    bxdecay0::event e;
                    try {
                      rd.load_next_event(e);
                    } catch (std::exception & x) {
                      problem = std::string("has_next_event() announced an event but load_next_event raised: ") + x.what();
                      pkey = (start >= N) ? "announce-then-throw|start>=N" : "announce-then-throw|start<N";
                      break;
                    }
                    got.push_back((int)std::lround(e.get_time()) - 1);
                    if (++guard > N + 5) { problem = "reader delivers more events than exist"; pkey = "runaway"; break; }
                  }
                  for (int x = 0; x < extra_after && problem.empty(); x++)
                    if (rd.has_next_event()) { problem = "has_next_event() true again after it returned false"; pkey = "has_next-revives"; }
                  if (problem.empty() && pattern % 2 == 0) {
                    // a caller that does not ask first: once the window is exhausted, load_next_event must refuse, never deliver
                    bxdecay0::event e;
                    bool threw = false;
                    try {
                      rd.load_next_event(e);
                    } catch (std::exception &) {
                      threw = true;
                    }
                    if (!threw) {
                      problem = fmt("load_next_event() after the end of the window delivered an event (time %.17g, %zu particles)", e.get_time(), e.get_particles().size());
                      pkey = "load-after-the-end";
                    }
                    if (problem.empty() && !rd.is_terminated() && !got.empty()) {
                      problem = "the window was delivered completely but is_terminated() is false";
                      pkey = "not-terminated-after-window";
                    }
                  }
                  if (problem.empty() && rd.get_loaded_event_counter() != (int)got.size()) {
                    problem = fmt("loaded counter %d, delivered %zu", rd.get_loaded_event_counter(), got.size());
                    pkey = "loaded-counter";
                  }
                } catch (std::exception & x) {
                  problem = std::string("reader raised: ") + x.what();
                  pkey = (start >= N) ? "exception|start>=N" : "exception|start<N";
                }
                delivered_total += (long)got.size();
                if (problem.empty() && got != expect) {
                  std::string gs, es;
                  for (int v : got) gs += std::to_string(v) + " ";
                  for (int v : expect) es += std::to_string(v) + " ";
                  problem = "delivered [" + gs + "] expected [" + es + "]";
                  pkey = (start >= N) ? "wrong-window|start>=N" : (mx == 0 ? "wrong-window|max=0" : "wrong-window|max>0");
                }
                if (!problem.empty()) fail("window|" + pkey, problem + " (" + wit + ")", wit);
              }
          }
          return;
        }
        for (int v = 0; v <= left; v++) {
          part[k] = v;
          rec(k + 1, left - v);
        }
      };
      rec(0, N);
    }
  }
  std::clog.rdbuf(clog_buf);
  fprintf(OUT, "{\"roundtrip_events\":%ld,\"sessions\":%ld,\"partitions\":%ld,\"delivered\":%ld,\"classes\":%zu,\"sample\":%s,", rt_events, sessions, partitions, delivered_total,
          classes.size(), jstr(sample).c_str());
  emit_mismatches(OUT, "mismatches", mm);
  fprintf(OUT, "}\n");
  return 0;
}
