// Shared by the libFuzzer targets of C15.
#ifndef VERIF_FZ_COMMON_H
#define VERIF_FZ_COMMON_H
#include <cstdint>
#include <cstdio>
#include <cstdlib>
#include <string>
#include <sys/stat.h>
#include <unistd.h>

inline std::string fz_dir()
{
  static std::string d;
  if (d.empty()) {
    const char * base = getenv("VERIF_FZ_TMP");
    d = std::string(base ? base : "/dev/shm") + "/bxfz." + std::to_string((long)getpid());
    mkdir(d.c_str(), 0755);
  }
  return d;
}
inline void fz_write(const std::string & path, const uint8_t * data, size_t n)
{
  FILE * f = fopen(path.c_str(), "wb");
  if (!f) abort();
  if (n) fwrite(data, 1, n, f);
  fclose(f);
}
// the monitor's own verdict: abort with a recognisable line (libFuzzer turns it into an artifact)
#define FZ_VIOLATION(msg)                                         \
  do {                                                            \
    fprintf(stderr, "VERIF-PREDICATE-VIOLATION: %s\n", msg);      \
    abort();                                                      \
  } while (0)
#endif
