// C15 target 2: dbd_gA::initialize on arbitrary table files (first byte selects p.d.f. / c.d.f. file).
#include <cmath>
#include <cstring>
#include <fstream>
#include <sstream>
#include <string>
#include <vector>

#include <bxdecay0/dbd_gA.h>
#include <bxdecay0/event.h>

#include "fz_common.h"
#include "../tape.h"

extern "C" int LLVMFuzzerTestOneInput(const uint8_t * data, size_t size)
{
  if (size < 1) return 0;
  bool pdf = data[0] & 1;
  data++;
  size--;
  static std::string base = [] {
    std::string b = fz_dir();
    std::string d = b;
    for (const char * part : {"/data", "/dbd_gA", "/v1.0", "/Test", "/g0"}) {
      d += part;
      mkdir(d.c_str(), 0755);
    }
    setenv("BXDECAY0_DBD_GA_DATA_DIR", b.c_str(), 1);
    return b;
  }();
  fz_write(base + "/data/dbd_gA/v1.0/Test/g0/" + (pdf ? "tab_pdf.data" : "tab_ocdf.data"), data, size);
  try {
    bxdecay0::dbd_gA g;
    g.set_nuclide("Test");
    g.set_process(bxdecay0::dbd_gA::PROCESS_G0);
    g.set_shooting(pdf ? bxdecay0::dbd_gA::SHOOTING_REJECTION : bxdecay0::dbd_gA::SHOOTING_INVERSE_TRANSFORM_METHOD);
    g.initialize();
    bool roomy = false; // header as loaded: 0 <= E_min < E_max and E_sum(max) >= 2 E_min + step (the cell above the first node is allowed)
    {
      std::ostringstream o;
      o.precision(17);
      g.print(o, "", "");
      const std::string txt = o.str();
      auto val = [&](const char * key, double & v) {
        size_t i = txt.find(key);
        if (i == std::string::npos) return false;
        v = atof(txt.c_str() + i + strlen(key));
        return true;
      };
      double es = 0, n = 0, lo = 0, hi = 0;
      bool have = val("esum(max) = ", es) && val("e1(min) = ", lo) && val("e1(max) = ", hi) && val("e1(nsamples) = ", n);
      if (have && n < 2) have = val("# e1/e2 energy prob samples = ", n); // the c.d.f. branch of print() reports the size there
      if (have && n >= 2) {
        roomy = lo >= 0 && hi > lo && es >= 2 * lo + (hi - lo) / (n - 1);
        // every sampled pair has e1 + e2 >= 2 E_min: a table with E_sum(max) <= 2 E_min allows no pair at all (the sampler would never return)
        if (es <= 2 * lo) FZ_VIOLATION("the loader accepted a table in which no pair of energies is allowed (maximum energy sum <= 2 E_min)");
      }
    }
    if (!pdf) {
      // the loader's own predicate for the c.d.f. file it has just accepted, evaluated on the rows as the public decoder gives them
      // (the file is walked the way the loader walks it): every row non-decreasing, within [0,1], ending at 1
      std::istringstream in(std::string((const char *)data, size));
      int seen = 0;
      while (in) {
        std::string raw;
        std::getline(in, raw);
        if (raw.empty()) continue;
        {
          std::string w;
          std::istringstream ins(raw);
          ins >> w;
          if (w[0] == '#') continue;
        }
        if (seen++ >= 2) {
          std::vector<double> row;
          bool decoded = true;
          try {
            bxdecay0::load_optimized_cdf_array(raw, row);
          } catch (std::exception &) {
            decoded = false;
          }
          if (decoded && !row.empty()) {
            double prev = 0.0;
            bool ok = row.back() == 1.0;
            for (double c : row) {
              if (!(c >= prev && c <= 1.0)) ok = false;
              prev = c;
            }
            if (!ok) FZ_VIOLATION("the loader accepted a c.d.f. table with a row that is not a cumulative distribution (values outside [0,1], decreasing, or not ending at 1)");
          }
        }
        in >> std::ws;
        if (in.eof()) break;
      }
    }
    if (pdf) {
      // the loader's own predicate for the p.d.f. file it has just accepted: no probability on a node whose two energies sum to more
      // than the maximum energy sum (the file is walked the way the loader walks it, the node energies are computed as it computes them)
      std::istringstream in(std::string((const char *)data, size));
      int seen = 0, row = 0;
      double esum = 0, emin = 0, emax = 0, stp = 0;
      unsigned int n = 0;
      bool usable = true, forbidden_positive = false, shape_ok = true;
      while (in && usable) {
        std::string raw;
        std::getline(in, raw);
        if (raw.empty()) continue;
        // only files whose layout leaves no doubt about which node a value belongs to: no comment, no line starting with white space
        if (raw[0] == '#') continue;
        if (raw.find('#') != std::string::npos || std::isspace((unsigned char)raw[0])) {
          usable = false;
          break;
        }
        std::istringstream li(raw);
        if (seen == 0) {
          li >> esum;
          usable = (bool)li;
        } else if (seen == 1) {
          std::string lab;
          li >> lab >> emin >> emax >> stp >> n;
          usable = (bool)li && n >= 2 && n <= 100000;
          stp = (emax - emin) / (n - 1);
        } else {
          double e1 = emin + row * stp;
          int j = 0;
          while (li && !li.eof()) {
            std::string w;
            li >> w;
            std::istringstream wi(w);
            double p = 0;
            wi >> p;
            if (!wi) break;
            double e2 = emin + j * stp;
            if (e1 + e2 > esum && p > 0.0) forbidden_positive = true;
            j++;
            li >> std::ws;
          }
          if ((unsigned int)j != n - (unsigned int)row) shape_ok = false;
          row++;
        }
        seen++;
        in >> std::ws;
        if (in.eof()) break;
      }
      if (usable && shape_ok && (unsigned int)row == n && forbidden_positive)
        FZ_VIOLATION("the loader accepted a p.d.f. table with probability on a node beyond the maximum energy sum (its own rule: 'should be zero')");
    }
    if (pdf && roomy) {
      // a p.d.f. table that was accepted must be able to produce an event: with the third deviate of every try at 1e-300 a
      // candidate is accepted as soon as the interpolated density is non-zero, which a table with one positive node offers on
      // at least 1/(n-1)^2 of the sampled triangle (half a cell, n <= 96 here) when the header is roomy; 1e6 tries without an
      // acceptance mean the density is zero everywhere
      struct EveryThirdTiny : public bxdecay0::i_random
      {
        verif::Rng r{1, 77};
        size_t n = 0;
        double operator()() override
        {
          if (n >= 3000000) throw verif::tape_exhausted();
          return (n++ % 3 == 2) ? 1e-300 : r.uniform();
        }
      } t0;
      double e1 = -1, e2 = -1;
      try {
        g.shoot_e1_e2(t0, e1, e2);
      } catch (verif::tape_exhausted &) {
        FZ_VIOLATION("the rejection sampler cannot produce a single pair from a table the loader accepted (density zero everywhere)");
      }
    }
    // loaded: the sampler must now stay in bounds and finite (bounded work: draw cap); besides i.i.d. deviates the first two
    // deviates are steered over a grid with both tails, so that the first and the last row/cell of whatever was loaded are used
    verif::Tape t(1, size);
    t.cap = 20000;
    static const double G1[] = {1e-300, 1e-12, 1e-6, 0.01, 0.05, 0.125, 0.25, 0.375, 0.5, 0.625, 0.75, 0.875, 0.95, 0.99, 1 - 1e-6, 1 - 1e-12};
    static const double G2[] = {1e-12, 0.3, 0.7, 1 - 1e-12};
    for (int i = 0; i < 50 + 64; i++) {
      double e1 = -1, e2 = -1;
      t.reseed(1, size * 131 + i);
      if (i >= 50) {
        t.pin(0, G1[(i - 50) % 16]);
        t.pin(1, G2[(i - 50) / 16]);
      }
      try {
        g.shoot_e1_e2(t, e1, e2);
      } catch (verif::tape_exhausted &) {
        break; // a table with vanishing acceptance: bounded by the cap, not a crash
      }
      if (!(std::isfinite(e1) && std::isfinite(e2))) FZ_VIOLATION("gA sampler returned a non-finite energy from a table it accepted");
      if (e1 < 0 || e2 < 0) FZ_VIOLATION("gA sampler returned a negative energy from a table it accepted");
    }
  } catch (verif::tape_exhausted &) {
  } catch (std::exception &) {
  }
  // ---- a refused table must leave nothing behind: the SAME object, after the refusal and without reset(), is given a small valid table
  //      and must then be what a new object loading that table is (same description, same pairs for the same deviates)
  {
    static const std::string valid_cdf = "3.0\nCumulativeProbability 0.5 1.5 0.5 3\n^0 3 7 !1\n^0 3 7 !1\n^0 5 !1\n!1\n";
    static const std::string valid_pdf = [] {
      std::string v;
      const char * rd = getenv("BXDECAY0_RESOURCE_DIR");
      if (rd != nullptr) {
        std::ifstream f(std::string(rd) + "/data/dbd_gA/Test/g0/tab_pdf.data");
        std::stringstream ss;
        ss << f.rdbuf();
        v = ss.str();
      }
      return v;
    }();
    const std::string & valid = pdf ? valid_pdf : valid_cdf;
    const std::string path = base + "/data/dbd_gA/v1.0/Test/g0/" + (pdf ? "tab_pdf.data" : "tab_ocdf.data");
    if (!valid.empty()) {
      bxdecay0::dbd_gA g;
      bool refused = false;
      try {
        g.set_nuclide("Test");
        g.set_process(bxdecay0::dbd_gA::PROCESS_G0);
        g.set_shooting(pdf ? bxdecay0::dbd_gA::SHOOTING_REJECTION : bxdecay0::dbd_gA::SHOOTING_INVERSE_TRANSFORM_METHOD);
        g.initialize();
      } catch (std::exception &) {
        refused = true;
      }
      if (refused && !g.is_initialized()) {
        fz_write(path, (const uint8_t *)valid.data(), valid.size());
        bxdecay0::dbd_gA f;
        std::string dg, df;
        bool okg = true, okf = true;
        try {
          g.initialize();
        } catch (std::exception & x) {
          okg = false;
          dg = x.what();
        }
        try {
          f.set_nuclide("Test");
          f.set_process(bxdecay0::dbd_gA::PROCESS_G0);
          f.set_shooting(pdf ? bxdecay0::dbd_gA::SHOOTING_REJECTION : bxdecay0::dbd_gA::SHOOTING_INVERSE_TRANSFORM_METHOD);
          f.initialize();
        } catch (std::exception & x) {
          okf = false;
          df = x.what();
        }
        if (okf && !okg) FZ_VIOLATION("after a refused table, the same object refuses a valid table that a new object loads");
        if (okf && okg) {
          std::ostringstream a, b;
          g.print(a, "", "");
          f.print(b, "", "");
          if (a.str() != b.str()) FZ_VIOLATION("after a refused table, the same object loading a valid table describes itself differently from a new object (left-overs of the refused table)");
          for (int i = 0; i < 24; i++) {
            verif::Tape ta(7, 1000 + i), tb(7, 1000 + i);
            ta.cap = tb.cap = 200000;
            double a1 = -1, a2 = -1, b1 = -1, b2 = -1;
            try {
              g.shoot_e1_e2(ta, a1, a2);
              f.shoot_e1_e2(tb, b1, b2);
            } catch (verif::tape_exhausted &) {
              break;
            }
            if (a1 != b1 || a2 != b2 || ta.pos != tb.pos) FZ_VIOLATION("after a refused table, the same object loading a valid table samples other pairs than a new object");
          }
        }
      }
    }
  }
  return 0;
}
