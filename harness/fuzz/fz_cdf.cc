// C15 target 3: load_optimized_cdf_array on arbitrary strings.
#include <cmath>
#include <string>
#include <vector>

#include <bxdecay0/dbd_gA.h>

#include "fz_common.h"

extern "C" int LLVMFuzzerTestOneInput(const uint8_t * data, size_t size)
{
  std::string s((const char *)data, size);
  std::vector<double> v;
  try {
    bxdecay0::load_optimized_cdf_array(s, v);
    if (v.size() > size + 1) FZ_VIOLATION("decoder produced more values than input tokens");
    for (double x : v)
      if (std::isnan(x)) FZ_VIOLATION("decoder produced NaN from text it accepted");
  } catch (std::exception &) {
  }
  return 0;
}
