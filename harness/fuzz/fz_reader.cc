// C15 target 1: event_reader on arbitrary bytes (1-3 files, start/max from the first two bytes).
#include <cmath>
#include <fstream>
#include <iostream>
#include <vector>

#include <bxdecay0/event.h>
#include <bxdecay0/event_reader.h>

#include "fz_common.h"

extern "C" int LLVMFuzzerTestOneInput(const uint8_t * data, size_t size)
{
  static bool quiet = [] {
    std::clog.setstate(std::ios::failbit); // the reader prints a report at destruction
    return true;
  }();
  (void)quiet;
  if (size < 2) return 0;
  int start = data[0] % 6, mx = data[1] % 6;
  data += 2;
  size -= 2;
  std::vector<std::string> files;
  size_t b = 0;
  for (size_t i = 0; i <= size && files.size() < 3; i++) {
    if (i == size || data[i] == 0xFF) {
      std::string p = fz_dir() + "/r" + std::to_string(files.size()) + ".d0t";
      fz_write(p, data + b, i - b);
      files.push_back(p);
      b = i + 1;
    }
  }
  bxdecay0::event_reader::config_type cfg;
  cfg.event_files = files;
  cfg.start_event = start;
  cfg.max_nb_events = mx;
  try {
    bxdecay0::event_reader rd(cfg);
    int n = 0;
    while (rd.has_next_event() && n < 300) {
      bxdecay0::event e;
      rd.load_next_event(e);
      n++;
      // a successful load must satisfy the loader's own validity predicate
      if (!e.is_valid()) FZ_VIOLATION("event_reader delivered an event that is not is_valid()");
      if (mx > 0 && n > mx) FZ_VIOLATION("event_reader delivered more than max_nb_events events");
    }
  } catch (std::exception &) {
    // a clean error is the right answer to a malformed file
  }
  return 0;
}
