// C15 target 1: event_reader on arbitrary bytes (1-3 files, start/max from the first two bytes).
#include <cmath>
#include <fstream>
#include <iostream>
#include <sstream>
#include <cstdlib>
#include <vector>

#include <bxdecay0/event.h>
#include <bxdecay0/event_reader.h>

#include "fz_common.h"

extern "C" int LLVMFuzzerTestOneInput(const uint8_t * data, size_t size)
{
  static bool quiet = [] {
    std::clog.setstate(std::ios::failbit); // the reader prints a report at destruction
    return true;
  }();
  (void)quiet;
  if (size < 2) return 0;
  int start = data[0] % 6, mx = data[1] % 6;
  data += 2;
  size -= 2;
  std::vector<std::string> files;
  size_t b = 0;
  for (size_t i = 0; i <= size && files.size() < 3; i++) {
    if (i == size || data[i] == 0xFF) {
      std::string p = fz_dir() + "/r" + std::to_string(files.size()) + ".d0t";
      fz_write(p, data + b, i - b);
      files.push_back(p);
      b = i + 1;
    }
  }
  bxdecay0::event_reader::config_type cfg;
  cfg.event_files = files;
  cfg.start_event = start;
  cfg.max_nb_events = mx;
  int n = 0;
  try {
    bxdecay0::event_reader rd(cfg);
    while (rd.has_next_event() && n < 300) {
      bxdecay0::event e;
      rd.load_next_event(e);
      n++;
      // a successful load must satisfy the loader's own validity predicate
      if (!e.is_valid()) FZ_VIOLATION("event_reader delivered an event that is not is_valid()");
      if (mx > 0 && n > mx) FZ_VIOLATION("event_reader delivered more than max_nb_events events");
    }
    // the loader's own rule for the record header: the particle count is a non-negative number (it refuses "nbParticles < 0").  With one
    // file read from its start, the first record's count is the fourth token of the file: if that token is a negative number and an
    // event was delivered all the same, the rule was not applied (a count read into an unsigned wraps modulo 2^32 without failing)
    if (files.size() == 1 && start == 0 && n >= 1) {
      std::istringstream in(std::string((const char *)data, size));
      std::string tok[4];
      if (in >> tok[0] >> tok[1] >> tok[2] >> tok[3]) {
        // (only where white-space tokens and the reader's numeric extraction agree about the fields: a plain unsigned identifier, a time
        //  that is one complete number, a printable label, a count that is one complete integer)
        bool plain = !tok[0].empty() && tok[0].find_first_not_of("0123456789") == std::string::npos && tok[0].size() < 9;
        char * end = nullptr;
        (void)strtod(tok[1].c_str(), &end);
        plain = plain && end == tok[1].c_str() + tok[1].size() && !tok[1].empty() && tok[1].find_first_not_of("+-.0123456789eE") == std::string::npos;
        for (unsigned char ch : tok[2]) plain = plain && ch > 32 && ch < 127;
        end = nullptr;
        long long c = strtoll(tok[3].c_str(), &end, 10);
        plain = plain && end == tok[3].c_str() + tok[3].size() && !tok[3].empty() && tok[3].find_first_not_of("-0123456789") == std::string::npos;
        if (plain && c < 0) FZ_VIOLATION("event_reader delivered an event from a record whose particle count is negative");
      }
    }
  } catch (std::exception &) {
    // a clean error is the right answer to a malformed file
  }
  return 0;
}
