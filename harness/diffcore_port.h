// Shared pieces of the drivers: mismatch bookkeeping and JSON output (no reference needed).
#ifndef VERIF_DIFFCORE_PORT_H
#define VERIF_DIFFCORE_PORT_H
#include <algorithm>
#include <cstdarg>
#include <cstdio>
#include <cstdlib>
#include <fstream>
#include <iostream>
#include <map>
#include <string>
#include <set>
#include <unordered_set>
#include <vector>

#include <cmath>
#include "evutil.h"
#include "tape.h"
#include "wellformed.h"

namespace verif {
static FILE * OUT = stdout;

static std::string fmt(const char * f, ...)
{
  char buf[1024];
  va_list ap;
  va_start(ap, f);
  vsnprintf(buf, sizeof buf, f, ap);
  va_end(ap);
  return buf;
}

// C08 runs part of its workload with every debug/verbosity switch of the library on (they are configuration too).  The library
// prints through std::cerr/std::clog: those are pointed at /dev/null; sanitizer and libstdc++ reports use fd 2 directly.
inline bool verif_debug_flags()
{
  static int on = -1;
  if (on < 0) {
    on = getenv("VERIF_DEBUG_FLAGS") != nullptr ? 1 : 0;
    if (on) {
      static std::ofstream devnull("/dev/null");
      std::cerr.rdbuf(devnull.rdbuf());
      std::clog.rdbuf(devnull.rdbuf());
    }
  }
  return on == 1;
}

struct Mismatch
{
  std::string key, detail, tape, ref, port, steer;
  long count = 0;
};

struct Stats
{
  std::string name;
  long events = 0, y90_waived = 0, pair_swaps = 0;
  size_t max_draws = 0;
  std::unordered_set<uint64_t> sigs;
  std::map<std::string, Mismatch> mm;
  std::map<std::string, Mismatch> wf; // C04 monitor violations
  std::vector<size_t> draws_hist;
  long cap_hits = 0;
  long table_bins = 0; // spectrum-table bins compared with the reference (C02)
  std::string sample;
};

static uint64_t hash_str(const std::string & s)
{
  uint64_t h = 1469598103934665603ULL;
  for (unsigned char c : s) {
    h ^= c;
    h *= 1099511628211ULL;
  }
  return h;
}


  inline void emit_mismatches(FILE * out, const char * field, std::map<std::string, Mismatch> & mm)
  {
    fprintf(out, "\"%s\":[", field);
    bool first = true;
    for (auto & kv : mm) {
      Mismatch & m = kv.second;
      fprintf(out, "%s{\"key\":%s,\"count\":%ld,\"detail\":%s,\"steer\":%s,\"tape\":%s,\"ref\":%s,\"port\":%s}", first ? "" : ",",
              jstr(m.key).c_str(), m.count, jstr(m.detail).c_str(), jstr(m.steer).c_str(), m.tape.empty() ? "[]" : m.tape.c_str(),
              m.ref.empty() ? "null" : m.ref.c_str(), m.port.empty() ? "null" : m.port.c_str());
      first = false;
    }
    fprintf(out, "]");
  }

  inline std::vector<double> grid_values(int n)
  {
    std::vector<double> g;
    for (int j = 1; j <= 12; j++) {
      g.push_back(std::pow(10.0, -j));
      g.push_back(1.0 - std::pow(10.0, -j));
    }
    for (int i = 0; i < n; i++) g.push_back((i + 0.5) / n);
    return g;
  }
} // namespace verif
#endif
