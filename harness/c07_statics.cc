// C07, hidden-static-state monitor.
// Watches the writable static storage of libBxDecay0.so (.data/.bss of the loaded object and this thread's
// TLS block) at quiescent points (after each shot).  Words that change more than once are *mutable static
// state*: a place where history can hide.  Their end-of-shot values observed over a pool of real runs are then
// injected before other shots (every injected vector is a state the library really reached at the end of a
// real shot, so "inject state of A, then shoot X" is the history "shoot A, then shoot X"); a shot whose event
// depends on the injected state is reported as a candidate, to be confirmed by real replays in fresh processes.
//
// usage: c07_statics scan   <specfile> <seed> <n_iid> <max_states> <shard> <nshards>
//        c07_statics replay <specfile> <seed> <itemA|-1> <itemX> <n_iid>   (prints the event of X after A, or of X alone)
//        c07_statics firstuse <specfile> <seed> <n_iid> <order_seed> <max_items>
//            walks the items in an order of its own and reports the words that changed exactly ONCE (first-use initialisations)
//            with their final value and the item during which they changed: a first-use static whose value differs between two
//            processes that started with different events is state that depends on history ("first call wins")
//        c07_statics fuinject <specfile> <seed> <n_iid> <wordfile> <max_items>
//            wordfile lines: <word name> <value 1 hex> <value 2 hex>; every item is shot under value set 1 and under value set 2
//   spec lines:  B <name> [thr ...]   |   D <name> <level> <mode>
#include <algorithm>
#include <cstdlib>
#include <cstring>
#include <fstream>
#include <unistd.h>
#include <sys/wait.h>
#include <functional>
#include <link.h>
#include <map>
#include <memory>
#include <set>
#include <sstream>

#include <bxdecay0/decay0_generator.h>
#include <bxdecay0/event.h>

#include "diffcore_port.h"

using namespace verif;
using bxdecay0::decay0_generator;

struct Region
{
  char * addr;
  size_t size;
  char kind; // 'd' data/bss (offset = vaddr), 't' TLS (offset inside the TLS image)
  size_t base_off;
};
static std::vector<Region> g_regions;

static int phdr_cb(struct dl_phdr_info * info, size_t, void *)
{
  if (!info->dlpi_name || !strstr(info->dlpi_name, "libBxDecay0")) return 0;
  for (int i = 0; i < info->dlpi_phnum; i++) {
    const ElfW(Phdr) & ph = info->dlpi_phdr[i];
    if (ph.p_type == PT_LOAD && (ph.p_flags & PF_W)) g_regions.push_back({(char *)(info->dlpi_addr + ph.p_vaddr), (size_t)ph.p_memsz, 'd', (size_t)ph.p_vaddr});
    if (ph.p_type == PT_TLS && info->dlpi_tls_data) g_regions.push_back({(char *)info->dlpi_tls_data, (size_t)ph.p_memsz, 't', 0});
  }
  return 0;
}

typedef std::vector<uint64_t> Snap;
static size_t total_words()
{
  size_t n = 0;
  for (auto & r : g_regions) n += r.size / 8;
  return n;
}
static void snapshot(Snap & s)
{
  s.resize(total_words());
  size_t k = 0;
  for (auto & r : g_regions) {
    memcpy(&s[k], r.addr, (r.size / 8) * 8);
    k += r.size / 8;
  }
}
static uint64_t * word_ptr(size_t w)
{
  for (auto & r : g_regions) {
    size_t n = r.size / 8;
    if (w < n) return (uint64_t *)(r.addr) + w;
    w -= n;
  }
  return nullptr;
}
static std::string word_name(size_t w)
{
  for (auto & r : g_regions) {
    size_t n = r.size / 8;
    if (w < n) return fmt("%c+0x%zx", r.kind, r.base_off + 8 * w);
    w -= n;
  }
  return "?";
}

struct Item
{
  int cfg;
  uint64_t stream;
  std::vector<std::pair<size_t, double>> pins;
};
struct Cfg
{
  char kind;
  std::string name;
  int level = 0, mode = 0;
  std::vector<double> thr;
  std::string label() const { return kind == 'B' ? "bkg/" + name : "dbd/" + name + "/L" + std::to_string(level) + "/m" + std::to_string(mode); }
};

static std::vector<Cfg> g_cfgs;
static std::vector<Item> g_items;

static void load_spec(const char * path, uint64_t seed, long n_iid)
{
  std::ifstream in(path);
  std::string line;
  while (std::getline(in, line)) {
    if (line.empty()) continue;
    std::istringstream ls(line);
    Cfg c;
    std::string k;
    ls >> k >> c.name;
    c.kind = k[0];
    if (c.kind == 'B') {
      double v;
      while (ls >> v)
        if (v > 0 && v < 1) c.thr.push_back(v);
    } else {
      ls >> c.level >> c.mode;
    }
    g_cfgs.push_back(c);
  }
  Rng r(seed, 7070);
  for (size_t ci = 0; ci < g_cfgs.size(); ci++) {
    uint64_t base = (hash_str(g_cfgs[ci].label()) & 0xffffff) << 20;
    for (long i = 0; i < n_iid; i++) g_items.push_back({(int)ci, base + i, {}});
    // steer the leading branch draws to every harvested threshold (both sides), cells 1..3, capped
    std::vector<double> thr = g_cfgs[ci].thr;
    if (thr.size() > 40) {
      std::vector<double> t2;
      for (size_t k = 0; k < 40; k++) t2.push_back(thr[(k * thr.size()) / 40]);
      thr = t2;
    }
    long j = n_iid;
    for (double t : thr)
      for (size_t cell : {1, 2, 3})
        for (double eps : {-1e-9, 1e-9})
          if (t + eps > 0 && t + eps < 1) g_items.push_back({(int)ci, base + (j++), {{cell, t + eps}}});
    // both tails of each of the first 16 draws: the gamma / conversion electron / pair decision of a transition is taken at
    // u (1 + coefficients) and is not a harvested threshold - the upper tail selects the rare outcome wherever that draw sits
    for (size_t cell = 0; cell < 16; cell++)
      for (double v : {1e-9, 1 - 1e-9}) g_items.push_back({(int)ci, base + (j++), {{cell, v}}});
  }
}

static std::vector<std::unique_ptr<decay0_generator>> g_gens;
static decay0_generator & gen_of(int ci, uint64_t seed)
{
  if (g_gens.size() < g_cfgs.size()) g_gens.resize(g_cfgs.size());
  if (!g_gens[ci]) {
    const Cfg & c = g_cfgs[ci];
    g_gens[ci].reset(new decay0_generator);
    if (c.kind == 'B') {
      g_gens[ci]->set_decay_category(decay0_generator::DECAY_CATEGORY_BACKGROUND);
      g_gens[ci]->set_decay_isotope(c.name);
    } else {
      g_gens[ci]->set_decay_category(decay0_generator::DECAY_CATEGORY_DBD);
      g_gens[ci]->set_decay_isotope(c.name);
      g_gens[ci]->set_decay_dbd_level(c.level);
      g_gens[ci]->set_decay_dbd_mode((bxdecay0::dbd_mode_type)c.mode);
    }
    Tape t(seed, 3);
    g_gens[ci]->initialize(t);
  }
  return *g_gens[ci];
}

static size_t shoot_item(const Item & it, uint64_t seed, bxdecay0::event & e)
{
  Tape t(seed, it.stream);
  for (auto & p : it.pins) t.pin(p.first, p.second);
  gen_of(it.cfg, seed).shoot(t, e);
  return t.pos;
}

int main(int argc, char ** argv)
{
  if (argc < 6) return 2;
  std::string mode = argv[1];
  uint64_t seed = strtoull(argv[3], 0, 10);
  if (mode == "replay") {
    // real history in a fresh process: [A ;] X
    if (argc < 7) return 2;
    load_spec(argv[2], seed, atol(argv[6]));
    long a = atol(argv[4]), x = atol(argv[5]);
    bxdecay0::event e;
    if (a >= 0) shoot_item(g_items[a], seed, e);
    bxdecay0::event ex;
    size_t d = shoot_item(g_items[x], seed, ex);
    fprintf(OUT, "{\"draws\":%zu,\"event\":%s}\n", d, event_json(ex).c_str());
    return 0;
  }
  if (mode == "itemfresh") {
    // c07_statics itemfresh <spec> <seed> <n_iid> <first> <count>
    // every item of configurations first..first+count-1 as the FIRST thing a process does with the library (a forked child of this
    // process, which itself never calls the library) against the same item inside a child that walks all items of the configuration in
    // order: an event may not depend on whether an ordinary decay of the same nuclide came before it in the process
    if (argc < 7) return 2;
    load_spec(argv[2], seed, atol(argv[4]));
    size_t first = (size_t)atol(argv[5]), count = (size_t)atol(argv[6]);
    auto item_hash = [&](decay0_generator & g, const Item & it) -> uint64_t {
      bxdecay0::event e;
      Tape t(seed, it.stream);
      for (auto & p : it.pins) t.pin(p.first, p.second);
      try {
        g.shoot(t, e);
      } catch (std::exception &) {
        return 0xdeadULL;
      }
      return (hash_str(event_json(e)) * 1099511628211ull) ^ (uint64_t)t.pos;
    };
    auto make = [&](size_t ci, decay0_generator & g) {
      const Cfg & c = g_cfgs[ci];
      if (c.kind == 'B') {
        g.set_decay_category(decay0_generator::DECAY_CATEGORY_BACKGROUND);
        g.set_decay_isotope(c.name);
      } else {
        g.set_decay_category(decay0_generator::DECAY_CATEGORY_DBD);
        g.set_decay_isotope(c.name);
        g.set_decay_dbd_level(c.level);
        g.set_decay_dbd_mode((bxdecay0::dbd_mode_type)c.mode);
      }
      Tape ti(seed, 3);
      g.initialize(ti);
    };
    // runs f in a forked child and returns what it wrote (a vector of hashes)
    auto in_child = [&](const std::function<void(std::vector<uint64_t> &)> & f, std::vector<uint64_t> & out) -> bool {
      int fd[2];
      if (pipe(fd) != 0) return false;
      fflush(nullptr);
      pid_t pid = fork();
      if (pid == 0) {
        close(fd[0]);
        std::vector<uint64_t> v;
        try {
          f(v);
        } catch (std::exception &) {
          v.assign(1, 0xbadULL);
        }
        size_t n = v.size();
        if (write(fd[1], &n, sizeof n) < 0) _exit(3);
        if (n && write(fd[1], v.data(), n * sizeof(uint64_t)) < 0) _exit(3);
        _exit(0);
      }
      close(fd[1]);
      size_t n = 0;
      bool ok = read(fd[0], &n, sizeof n) == (ssize_t)sizeof n && n < (1u << 24);
      if (ok) {
        out.resize(n);
        size_t got = 0;
        while (got < n * sizeof(uint64_t)) {
          ssize_t k = read(fd[0], (char *)out.data() + got, n * sizeof(uint64_t) - got);
          if (k <= 0) { ok = false; break; }
          got += (size_t)k;
        }
      }
      close(fd[0]);
      int st = 0;
      waitpid(pid, &st, 0);
      return ok && WIFEXITED(st) && WEXITSTATUS(st) == 0;
    };
    long compared = 0, failed_children = 0;
    std::string js = "[";
    bool firstrec = true;
    for (size_t ci = first; ci < first + count && ci < g_cfgs.size(); ci++) {
      std::vector<size_t> idx;
      for (size_t k = 0; k < g_items.size(); k++)
        if ((size_t)g_items[k].cfg == ci) idx.push_back(k);
      std::vector<uint64_t> seq;
      if (!in_child([&](std::vector<uint64_t> & v) {
            decay0_generator g;
            make(ci, g);
            for (size_t k : idx) v.push_back(item_hash(g, g_items[k]));
          }, seq) || seq.size() != idx.size()) {
        failed_children++;
        continue;
      }
      long differing = 0;
      long witness = -1;
      for (size_t j = 0; j < idx.size(); j++) {
        std::vector<uint64_t> one;
        if (!in_child([&](std::vector<uint64_t> & v) {
              decay0_generator g;
              make(ci, g);
              v.push_back(item_hash(g, g_items[idx[j]]));
            }, one) || one.size() != 1) {
          failed_children++;
          continue;
        }
        compared++;
        if (one[0] != seq[j]) {
          if (differing++ == 0) witness = (long)j;
        }
      }
      if (differing) {
        js += fmt("%s{\"cfg\":%zu,\"config\":%s,\"items\":%zu,\"differing\":%ld,\"first_witness_position\":%ld}", firstrec ? "" : ",", ci, jstr(g_cfgs[ci].label()).c_str(), idx.size(), differing, witness);
        firstrec = false;
      }
    }
    js += "]";
    fprintf(OUT, "{\"mode\":\"itemfresh\",\"compared\":%ld,\"failed_children\":%ld,\"differing\":%s}\n", compared, failed_children, js.c_str());
    return 0;
  }
  if (mode == "cfghash") {
    // c07_statics cfghash <spec> <seed> <n_iid> <first> <count> <warm order seed | 0>
    // hash of the event stream (all items, fixed tapes) of configurations first .. first+count-1; with a warm order seed the process
    // first walks the items of EVERY configuration in that shuffled order (whatever the library keeps for the life of a process - a
    // cache filled by the first caller - is then filled by somebody else), without it the process does nothing else
    if (argc < 8) return 2;
    load_spec(argv[2], seed, atol(argv[4]));
    size_t first = (size_t)atol(argv[5]), count = (size_t)atol(argv[6]);
    uint64_t warm = strtoull(argv[7], 0, 10);
    if (warm) {
      std::vector<size_t> order(g_items.size());
      for (size_t i = 0; i < order.size(); i++) order[i] = i;
      Rng ro(warm, 7073);
      for (size_t i = order.size(); i > 1; i--) std::swap(order[i - 1], order[ro.below(i)]);
      for (size_t oi : order) {
        bxdecay0::event e;
        try {
          shoot_item(g_items[oi], seed, e);
        } catch (std::exception &) {
        }
      }
    }
    std::string js = "[";
    bool firstrec = true;
    for (size_t ci = first; ci < first + count && ci < g_cfgs.size(); ci++) {
      uint64_t h = 1469598103934665603ull;
      long n = 0;
      std::string err;
      for (auto & it : g_items) {
        if ((size_t)it.cfg != ci) continue;
        bxdecay0::event e;
        try {
          // a generator of its own for the hashed stream (the warm-up used the cached one)
          const Cfg & c = g_cfgs[ci];
          static std::unique_ptr<decay0_generator> g;
          static size_t gci = (size_t)-1;
          if (gci != ci) {
            g.reset(new decay0_generator);
            if (c.kind == 'B') {
              g->set_decay_category(decay0_generator::DECAY_CATEGORY_BACKGROUND);
              g->set_decay_isotope(c.name);
            } else {
              g->set_decay_category(decay0_generator::DECAY_CATEGORY_DBD);
              g->set_decay_isotope(c.name);
              g->set_decay_dbd_level(c.level);
              g->set_decay_dbd_mode((bxdecay0::dbd_mode_type)c.mode);
            }
            Tape ti(seed, 3);
            g->initialize(ti);
            gci = ci;
          }
          Tape t(seed, it.stream);
          for (auto & p : it.pins) t.pin(p.first, p.second);
          g->shoot(t, e);
          h = (h ^ hash_str(event_json(e))) * 1099511628211ull;
          h = (h ^ (uint64_t)t.pos) * 1099511628211ull;
          n++;
        } catch (std::exception & x) {
          err = x.what();
          break;
        }
      }
      js += fmt("%s{\"cfg\":%zu,\"config\":%s,\"items\":%ld,\"hash\":\"%016llx\",\"error\":%s}", firstrec ? "" : ",", ci, jstr(g_cfgs[ci].label()).c_str(), n, (unsigned long long)h,
                jstr(err.substr(0, 100)).c_str());
      firstrec = false;
    }
    js += "]";
    fprintf(OUT, "{\"mode\":\"cfghash\",\"warm\":%llu,\"configs\":%s}\n", (unsigned long long)warm, js.c_str());
    return 0;
  }
  if (mode == "firstuse" || mode == "fuinject") {
    if (argc < 7) return 2;
    long n_iid = atol(argv[4]);
    size_t max_items = (size_t)atol(argv[6]);
    dl_iterate_phdr(phdr_cb, nullptr);
    load_spec(argv[2], seed, n_iid);
    if (mode == "firstuse") {
      uint64_t order_seed = strtoull(argv[5], 0, 10);
      std::vector<size_t> order(g_items.size());
      for (size_t i = 0; i < order.size(); i++) order[i] = i;
      Rng ro(order_seed, 7072);
      for (size_t i = order.size(); i > 1; i--) std::swap(order[i - 1], order[ro.below(i)]);
      if (order.size() > max_items) order.resize(max_items);
      std::vector<int> changes(total_words(), 0);
      std::vector<long> first_item(total_words(), -1);
      Snap prev, cur;
      snapshot(prev);
      for (size_t oi : order) {
        bxdecay0::event e;
        shoot_item(g_items[oi], seed, e);
        snapshot(cur);
        for (size_t w = 0; w < cur.size(); w++)
          if (cur[w] != prev[w]) {
            if (changes[w]++ == 0) first_item[w] = (long)oi;
          }
        prev.swap(cur);
      }
      std::string js = "[";
      bool first = true;
      for (size_t w = 0; w < changes.size(); w++)
        if (changes[w] == 1) {
          js += fmt("%s{\"word\":%s,\"value\":\"%016llx\",\"item\":%ld,\"config\":%s}", first ? "" : ",", jstr(word_name(w)).c_str(), (unsigned long long)prev[w], first_item[w],
                    jstr(g_cfgs[g_items[first_item[w]].cfg].label()).c_str());
          first = false;
        }
      js += "]";
      fprintf(OUT, "{\"mode\":\"firstuse\",\"order_seed\":%llu,\"items\":%zu,\"once\":%s}\n", (unsigned long long)order_seed, order.size(), js.c_str());
      return 0;
    }
    // fuinject
    struct W { uint64_t * p; uint64_t v1, v2; };
    std::vector<W> ws;
    {
      std::ifstream wf(argv[5]);
      std::string name, h1, h2;
      while (wf >> name >> h1 >> h2) {
        for (size_t w = 0; w < total_words(); w++)
          if (word_name(w) == name) ws.push_back({word_ptr(w), strtoull(h1.c_str(), 0, 16), strtoull(h2.c_str(), 0, 16)});
      }
    }
    // the items shot under both value sets: spread evenly over the whole pool (its tail holds the last configurations of the list),
    // and at least two items of every configuration
    std::vector<size_t> sel;
    {
      size_t step = std::max<size_t>(1, g_items.size() / std::max<size_t>(1, max_items));
      std::map<int, int> per_cfg;
      for (size_t xi = 0; xi < g_items.size(); xi++)
        if (xi % step == 0 || per_cfg[g_items[xi].cfg] < 2) {
          sel.push_back(xi);
          per_cfg[g_items[xi].cfg]++;
        }
    }
    // first use of everything (guards set, tables built) before values are swapped
    for (size_t xi : sel) {
      bxdecay0::event e;
      shoot_item(g_items[xi], seed, e);
    }
    long shots = 0, differing = 0;
    std::string wit = "[";
    for (size_t xi : sel) {
      for (auto & w : ws) *w.p = w.v1;
      bxdecay0::event e1, e2;
      size_t d1 = shoot_item(g_items[xi], seed, e1);
      for (auto & w : ws) *w.p = w.v2;
      size_t d2 = shoot_item(g_items[xi], seed, e2);
      shots += 2;
      if (d1 != d2 || !events_bit_identical(e1, e2)) {
        if (differing++ < 6) wit += fmt("%s%zu", differing > 1 ? "," : "", xi);
      }
    }
    wit += "]";
    fprintf(OUT, "{\"mode\":\"fuinject\",\"words\":%zu,\"shots\":%ld,\"differing\":%ld,\"witness_items\":%s}\n", ws.size(), shots, differing, wit.c_str());
    return 0;
  }
  long n_iid = atol(argv[4]);
  size_t max_states = (size_t)atol(argv[5]);
  int shard = argc > 6 ? atoi(argv[6]) : 0, nshards = argc > 7 ? atoi(argv[7]) : 1;
  dl_iterate_phdr(phdr_cb, nullptr);
  Snap base;
  snapshot(base); // before any use of the library by this harness
  load_spec(argv[2], seed, n_iid);
  std::map<std::string, Mismatch> mm;
  // ---- warm-up: construct and initialise every generator, one shot each
  {
    bxdecay0::event e;
    for (size_t ci = 0; ci < g_cfgs.size(); ci++) {
      Tape t(seed, 1);
      gen_of((int)ci, seed).shoot(t, e);
    }
  }
  // ---- phase 1: observe the static storage at quiescent points, two passes in different orders
  std::vector<size_t> order(g_items.size());
  for (size_t i = 0; i < order.size(); i++) order[i] = i;
  Rng r(seed, 7071);
  std::vector<int> changes(total_words(), 0);
  Snap prev, cur;
  snapshot(prev);
  long shots = 0;
  for (int pass = 0; pass < 2; pass++) {
    for (size_t i = order.size(); i > 1; i--) std::swap(order[i - 1], order[r.below(i)]);
    for (size_t oi : order) {
      bxdecay0::event e;
      shoot_item(g_items[oi], seed, e);
      shots++;
      snapshot(cur);
      for (size_t w = 0; w < cur.size(); w++)
        if (cur[w] != prev[w]) changes[w]++;
      prev.swap(cur);
    }
  }
  std::vector<size_t> mut;
  size_t once = 0;
  for (size_t w = 0; w < changes.size(); w++) {
    if (changes[w] >= 2) mut.push_back(w);
    else if (changes[w] == 1) once++;
  }
  std::string mutnames = "[";
  for (size_t k = 0; k < mut.size() && k < 40; k++) mutnames += (k ? "," : "") + jstr(word_name(mut[k]));
  mutnames += "]";
  long injected = 0, candidates = 0;
  bool pointers = false;
  std::string cand_json = "[";
  size_t nstates = 0;
  if (!mut.empty()) {
    // ---- state pool: end-of-shot values of the mutable words, with the item that produced them
    std::map<std::vector<uint64_t>, size_t> pool;
    for (size_t oi : order) {
      bxdecay0::event e;
      shoot_item(g_items[oi], seed, e);
      std::vector<uint64_t> v;
      for (size_t w : mut) v.push_back(*word_ptr(w));
      if (pool.size() < max_states || pool.count(v)) pool.emplace(v, oi);
    }
    nstates = pool.size();
    for (auto & kv : pool)
      for (uint64_t x : kv.first)
        if (x > 0x10000ULL && x < (1ULL << 47)) pointers = true; // looks like an address: a static root of heap data
    if (!pointers) {
      // ---- phase 2: inject every pooled state before every item of this shard
      for (size_t xi = shard; xi < g_items.size(); xi += nshards) {
        // canonical: the mutable words as they are in a process that never used the library
        for (size_t k = 0; k < mut.size(); k++) *word_ptr(mut[k]) = base[mut[k]];
        bxdecay0::event ex;
        size_t dx = shoot_item(g_items[xi], seed, ex);
        for (auto & kv : pool) {
          if (kv.second == xi) continue;
          for (size_t k = 0; k < mut.size(); k++) *word_ptr(mut[k]) = kv.first[k];
          bxdecay0::event e;
          size_t d = shoot_item(g_items[xi], seed, e);
          injected++;
          if (d != dx || !events_bit_identical(e, ex)) {
            candidates++;
            if (candidates <= 12) cand_json += fmt("%s{\"a\":%zu,\"x\":%zu,\"a_label\":%s,\"x_label\":%s}", candidates > 1 ? "," : "", kv.second, xi,
                                                   jstr(g_cfgs[g_items[kv.second].cfg].label()).c_str(), jstr(g_cfgs[g_items[xi].cfg].label()).c_str());
            break;
          }
        }
      }
    }
  }
  cand_json += "]";
  fprintf(OUT, "{\"regions\":%zu,\"words\":%zu,\"items\":%zu,\"configs\":%zu,\"shots\":%ld,\"words_changed_once\":%zu,\"mutable_words\":%zu,\"mutable_names\":%s,"
               "\"states\":%zu,\"pointers_among_mutable\":%s,\"injected_shots\":%ld,\"candidates\":%ld,\"candidate_list\":%s}\n",
          g_regions.size(), total_words(), g_items.size(), g_cfgs.size(), shots, once, mut.size(), mutnames.c_str(), nstates, pointers ? "true" : "false", injected, candidates,
          cand_json.c_str());
  return 0;
}
