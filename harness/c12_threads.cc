// C12: independent generators on different threads (DESIGN.md C12).
//   c12_threads stress <seed> <nthreads> <gadir|->      (TSan build: data races; any build: equality with sequential runs)
//   c12_threads sched <calls_per_thread 1|2>             (plain build + hooks: deterministic enumeration of interleavings)
//   c12_threads firstuse <seed> <nthreads> <event file>   (TSan build, fresh process: every thread's FIRST library call is a different
//                                                         entry point - stand-alone gA sampler on the shipped table, double-beta and background
//                                                         generators, catalogue accessors, resource lookup, event reader - released together)
//   c12_threads sweep <seed> <nthreads> <specfile> <nev> (TSan build: every thread walks ALL listed configurations - every published
//                                                         background name and a sample of double-beta cells - so that any static storage
//                                                         the library writes while generating is written by several threads)
// The executable interposes gsl_set_error_handler(_off) and gsl_integration_qng (forwarding with dlsym(RTLD_NEXT));
// they touch a plain shadow variable that stands for GSL's process-wide handler, so that ThreadSanitizer sees the
// conflicting accesses that the uninstrumented libgsl performs on its own global.
#include <atomic>
#include <chrono>
#include <cmath>
#include <condition_variable>
#include <cstdlib>
#include <cstring>
#include <dlfcn.h>
#include <fstream>
#include <functional>
#include <sstream>
#include <memory>
#include <mutex>
#include <thread>

#include <gsl/gsl_errno.h>
#include <gsl/gsl_integration.h>

#include <bxdecay0/bb_utils.h>
#include <bxdecay0/dbd_gA.h>
#include <bxdecay0/decay0_generator.h>
#include <bxdecay0/event.h>
#include <bxdecay0/event_reader.h>
#include <bxdecay0/gauss.h>
#include <bxdecay0/mdl_event_op.h>
#include <bxdecay0/resource.h>
#include <bxdecay0/version.h>

#include "diffcore_port.h"

using namespace verif;
using bxdecay0::decay0_generator;

// ------------------------------------------------------------------ interposition + recorded history
static gsl_error_handler_t * g_shadow_handler = nullptr; // PLAIN variable on purpose (TSan must see the accesses)
static std::atomic<long> g_sentinel_calls{0};
static std::atomic<long> g_qng_calls{0}, g_qng_etol{0};
static std::atomic<long> g_i1_violations{0}; // integration running while the installed handler is not "off"
static std::atomic<bool> g_record{false};

struct HEvent
{
  int thread;
  char op; // 'o' set_off, 's' set(restore), 'q' qng enter, 'Q' qng exit
  long arg;
};
static std::mutex g_hmutex;
static std::vector<HEvent> g_history;
static thread_local int t_id = -1;

static void hrecord(char op, long arg)
{
  if (!g_record.load()) return;
  std::lock_guard<std::mutex> l(g_hmutex);
  g_history.push_back({t_id, op, arg});
}

static void sentinel_handler(const char *, const char *, int, int) { g_sentinel_calls++; }

extern "C" {
gsl_error_handler_t * gsl_set_error_handler(gsl_error_handler_t * h)
{
  typedef gsl_error_handler_t * (*fn_t)(gsl_error_handler_t *);
  static fn_t real = (fn_t)dlsym(RTLD_NEXT, "gsl_set_error_handler");
  g_shadow_handler = h; // the write libgsl performs on its global
  hrecord('s', h == nullptr ? 0 : (h == sentinel_handler ? 1 : 2));
  return real(h);
}
gsl_error_handler_t * gsl_set_error_handler_off(void)
{
  typedef gsl_error_handler_t * (*fn_t)(void);
  static fn_t real = (fn_t)dlsym(RTLD_NEXT, "gsl_set_error_handler_off");
  gsl_error_handler_t * prev = real();
  // libgsl installs its internal no_error_handler: "off" is a non-null sentinel of ours in the shadow
  g_shadow_handler = (gsl_error_handler_t *)1;
  hrecord('o', prev == sentinel_handler ? 1 : (prev == nullptr ? 0 : 2));
  return prev;
}
int gsl_integration_qng(const gsl_function * f, double a, double b, double epsabs, double epsrel, double * result, double * abserr, size_t * neval)
{
  typedef int (*fn_t)(const gsl_function *, double, double, double, double, double *, double *, size_t *);
  static fn_t real = (fn_t)dlsym(RTLD_NEXT, "gsl_integration_qng");
  gsl_error_handler_t * h = g_shadow_handler; // the read libgsl performs when it raises an error
  if (h != (gsl_error_handler_t *)1) g_i1_violations++;
  hrecord('q', h == (gsl_error_handler_t *)1 ? 0 : 1);
  g_qng_calls++;
  int st = real(f, a, b, epsabs, epsrel, result, abserr, neval);
  if (st == GSL_ETOL) g_qng_etol++;
  hrecord('Q', st);
  return st;
}
}

// ------------------------------------------------------------------ schedule points (hook in bxdecay0/gauss.cc)
extern "C" void (*bxdecay0_verif_sched_point)(int);

struct Scheduler
{
  std::mutex m;
  std::condition_variable cv;
  std::vector<int> order; // which thread passes its next point
  size_t pos = 0;
  bool free_run = false;
  bool infeasible = false;
  void point(int /*k*/)
  {
    std::unique_lock<std::mutex> l(m);
    if (free_run) return;
    // wait for my turn; if the thread whose turn it is never shows up (blocked on a lock), the schedule is infeasible
    while (!free_run && pos < order.size() && order[pos] != t_id) {
      if (cv.wait_for(l, std::chrono::milliseconds(60)) == std::cv_status::timeout) {
        if (!free_run && pos < order.size() && order[pos] != t_id) {
          infeasible = true;
          free_run = true;
          cv.notify_all();
          return;
        }
      }
    }
    if (!free_run && pos < order.size()) pos++;
    cv.notify_all();
  }
};
static Scheduler * g_sched = nullptr;
static void sched_hook(int k)
{
  if (g_sched && t_id >= 0) g_sched->point(k);
}

// an integrand QNG cannot integrate to 1e-4 with 87 points: the call really returns GSL_ETOL
static double spiky(double x, void *) { return 1.0 / (1e-8 + (x - 0.3333) * (x - 0.3333)); }
static double smooth_f(double x, void *) { return std::exp(-x); }

static int run_sched(int calls)
{
  bxdecay0_verif_sched_point = sched_hook;
  gsl_set_error_handler(sentinel_handler); // the process-wide default of this process: records instead of aborting
  const int P = 4 * calls;
  // all interleavings: sequences with P zeros and P ones
  long total = 0, feasible = 0, bad_i1 = 0, bad_i2 = 0, bad_i3 = 0;
  std::map<std::string, Mismatch> mm;
  std::string first_bad;
  std::vector<int> order(2 * P);
  std::function<void(int, int, int)> rec = [&](int i, int n0, int n1) {
    if (i == 2 * P) {
      total++;
      Scheduler S;
      S.order = order;
      g_sched = &S;
      g_history.clear();
      g_record = true;
      long s0 = g_sentinel_calls.load(), v0 = g_i1_violations.load();
      gsl_set_error_handler(sentinel_handler);
      auto body = [&](int id) {
        t_id = id;
        for (int c = 0; c < calls; c++) {
          try {
            // thread 0 integrates something easy, thread 1 something QNG gives up on (GSL_ETOL for real)
            bxdecay0::decay0_gauss(id == 0 ? smooth_f : spiky, 0.0, 1.0, 1e-4, nullptr);
          } catch (std::exception &) {
          }
        }
        t_id = -1;
        std::lock_guard<std::mutex> l(S.m);
        // a finished thread gives its remaining turns away
        for (size_t k = S.pos; k < S.order.size(); k++)
          if (S.order[k] == id) S.order[k] = 1 - id;
        S.cv.notify_all();
      };
      std::thread a(body, 0), b(body, 1);
      a.join();
      b.join();
      g_record = false;
      g_sched = nullptr;
      bool infeasible = S.infeasible;
      if (!infeasible) feasible++;
      // invariants
      std::string sch;
      for (int v : order) sch += (char)('A' + v);
      bool i1 = g_i1_violations.load() != v0;
      gsl_error_handler_t * now = gsl_set_error_handler(sentinel_handler);
      bool i2 = now != sentinel_handler;
      bool i3 = g_sentinel_calls.load() != s0;
      if (!infeasible) {
        auto note = [&](const char * key, const std::string & d) {
          Mismatch & x = mm[key];
          if (x.count++ == 0) {
            x.key = key;
            x.detail = d + " in schedule " + sch + " (A = easy integrand, B = integrand on which QNG returns GSL_ETOL)";
            std::string h;
            for (auto & e : g_history) h += fmt("%c%d%c%ld ", 'A' + e.thread, 0, e.op, e.arg);
            x.steer = h;
          }
        };
        if (i1) { bad_i1++; note("schedule|I1-integration-with-handler-on", "a thread integrates while the installed GSL error handler is not the 'off' handler"); }
        if (i2) { bad_i2++; note("schedule|I2-handler-not-restored", "after both calls returned the installed GSL error handler is not the one the process started with"); }
        if (i3) { bad_i3++; note("schedule|I3-default-handler-invoked", "the process-wide GSL error handler was invoked (GSL's default handler would have called abort())"); }
      }
      return;
    }
    if (n0 < P) {
      order[i] = 0;
      rec(i + 1, n0 + 1, n1);
    }
    if (n1 < P) {
      order[i] = 1;
      rec(i + 1, n0, n1 + 1);
    }
  };
  rec(0, 0, 0);
  fprintf(OUT, "{\"mode\":\"sched\",\"calls_per_thread\":%d,\"schedules\":%ld,\"feasible\":%ld,\"violating_I1\":%ld,\"violating_I2\":%ld,\"violating_I3\":%ld,\"qng_calls\":%ld,\"qng_etol\":%ld,",
          calls, total, feasible, bad_i1, bad_i2, bad_i3, g_qng_calls.load(), g_qng_etol.load());
  emit_mismatches(OUT, "mismatches", mm);
  fprintf(OUT, "}\n");
  return 0;
}

// ------------------------------------------------------------------ stress: T threads, own generators, own tapes
struct Job
{
  char kind;
  std::string name;
  int level, mode;
  bool window;
};
static const Job JOBS[] = {
    {'D', "Mo100", 0, 5, false}, // quadrature that really returns GSL_ETOL during initialisation
    {'D', "Mo100", 0, 4, false}, {'B', "Bi214+Po214", 0, 0, false}, {'D', "Zn70", 0, 4, true}, {'B', "Co60", 0, 0, false},
    {'D', "Se82", 0, 21, false}, // gA (synthetic data if a directory is given)
    {'D', "Cd116", 1, 8, false}, {'B', "K40", 0, 0, false}, {'D', "Nd150", 0, 1, false}, {'D', "Ca48", 0, 15, false},
    {'D', "Mo100", 0, 22, false}, {'B', "Tl208", 0, 0, false}, {'D', "Xe136", 0, 20, false}, {'D', "Te130", 0, 13, false},
    {'B', "Eu152", 0, 0, false}, {'D', "Ge76", 0, 19, false},
    {'D', "Nd150", 0, 20, false}, {'D', "Zr96", 0, 20, false}, // with Xe136: every isotope of the quadruple-beta mode in one process
    {'D', "Se82", 0, 15, false},                                  // with Ca48: two isotopes of one quadrature mode
};
static const int NJOBS = sizeof(JOBS) / sizeof(JOBS[0]);

static std::vector<std::string> run_job(const Job & j, uint64_t seed, int nev, std::string & err)
{
  std::vector<std::string> out;
  try {
    decay0_generator g;
    if (j.kind == 'B') {
      g.set_decay_category(decay0_generator::DECAY_CATEGORY_BACKGROUND);
      g.set_decay_isotope(j.name);
    } else {
      g.set_decay_category(decay0_generator::DECAY_CATEGORY_DBD);
      g.set_decay_isotope(j.name);
      g.set_decay_dbd_level(j.level);
      g.set_decay_dbd_mode((bxdecay0::dbd_mode_type)j.mode);
      if (j.window) g.set_decay_dbd_esum_range(0.25, 0.75);
    }
    if ((hash_str(j.name) + j.mode) % 2 == 0) {
      auto op = std::make_shared<bxdecay0::momentum_direction_lock_event_op>();
      op->set_with_aperture_rectangular_cut(bxdecay0::INVALID_PARTICLE, 0, 1.0, 0.7, 0.3 + 0.05 * (j.mode % 5), 0.2, false);
      g.add_operation(op);
    }
    Tape t(seed, hash_str(j.name) + j.mode);
    g.initialize(t);
    bxdecay0::event e;
    for (int i = 0; i < nev; i++) {
      g.shoot(t, e);
      out.push_back(event_json(e));
    }
  } catch (std::exception & x) {
    err = x.what();
  }
  return out;
}

static int run_stress(uint64_t seed, int nthreads)
{
  gsl_set_error_handler(sentinel_handler);
  const int nev = 40;
  // sequential reference streams
  std::vector<std::vector<std::string>> ref(NJOBS);
  std::vector<std::string> referr(NJOBS);
  bool do_ref = getenv("VERIF_C12_NOREF") == nullptr;
  if (do_ref)
    for (int j = 0; j < NJOBS; j++) ref[j] = run_job(JOBS[j], seed, nev, referr[j]);
  // concurrent run: a barrier releases all threads at once (first-use races exist once per process)
  std::atomic<int> ready{0};
  std::atomic<bool> go{false};
  std::vector<std::vector<std::vector<std::string>>> got(nthreads);
  std::vector<std::vector<std::string>> goterr(nthreads);
  std::vector<std::thread> th;
  for (int t = 0; t < nthreads; t++) {
    th.emplace_back([&, t] {
      t_id = t;
      ready++;
      while (!go.load()) std::this_thread::yield();
      for (int k = 0; k < NJOBS; k++) {
        int j = (k + t * 5) % NJOBS; // different threads start on different configurations
        std::string e;
        got[t].push_back(run_job(JOBS[j], seed, nev, e));
        goterr[t].push_back(e);
      }
    });
  }
  while (ready.load() < nthreads) std::this_thread::yield();
  go = true;
  for (auto & x : th) x.join();
  std::map<std::string, Mismatch> mm;
  long streams = 0, events = 0;
  for (int t = 0; t < nthreads && do_ref; t++)
    for (int k = 0; k < NJOBS; k++) {
      int j = (k + t * 5) % NJOBS;
      streams++;
      events += (long)got[t][k].size();
      if (got[t][k] != ref[j] || goterr[t][k] != referr[j]) {
        std::string key = std::string("stream-differs|") + JOBS[j].name + "/m" + std::to_string(JOBS[j].mode);
        Mismatch & x = mm[key];
        if (x.count++ == 0) {
          x.key = key;
          size_t d = 0;
          while (d < got[t][k].size() && d < ref[j].size() && got[t][k][d] == ref[j][d]) d++;
          x.detail = fmt("thread %d, configuration %s/L%d/m%d: stream differs from the sequential one at event %zu (%zu vs %zu events; errors '%s' vs '%s')", t, JOBS[j].name.c_str(),
                         JOBS[j].level, JOBS[j].mode, d, got[t][k].size(), ref[j].size(), goterr[t][k].substr(0, 80).c_str(), referr[j].substr(0, 80).c_str());
        }
      }
    }
  gsl_error_handler_t * now = gsl_set_error_handler(sentinel_handler);
  if (now != sentinel_handler) {
    mm["stress|handler-not-restored"].key = "stress|handler-not-restored";
    mm["stress|handler-not-restored"].detail = "after all threads joined the installed GSL error handler is not the one the process started with";
    mm["stress|handler-not-restored"].count = 1;
  }
  if (g_sentinel_calls.load() > 0) {
    mm["stress|default-handler-invoked"].key = "stress|default-handler-invoked";
    mm["stress|default-handler-invoked"].detail = fmt("the process-wide GSL error handler was invoked %ld times during the concurrent run (GSL's default handler would have aborted the process)", g_sentinel_calls.load());
    mm["stress|default-handler-invoked"].count = g_sentinel_calls.load();
  }
  int accepted = 0;
  for (int j = 0; j < NJOBS; j++)
    if (referr[j].empty()) accepted++;
  // what every instance produced here, per configuration, for the comparison with the same configuration run ALONE in a process of
  // its own (mode "alone"): the sequential reference of this process shares the process with the other configurations
  auto stream_hash = [](const std::vector<std::string> & v, const std::string & err) {
    uint64_t h = hash_str(err);
    for (auto & x : v) h = h * 1099511628211ull ^ hash_str(x);
    return h;
  };
  std::string jh = "[";
  for (int j = 0; j < NJOBS; j++) {
    std::set<uint64_t> hs;
    if (do_ref) hs.insert(stream_hash(ref[j], referr[j]));
    for (int t = 0; t < nthreads; t++)
      for (int k = 0; k < NJOBS; k++)
        if ((k + t * 5) % NJOBS == j) hs.insert(stream_hash(got[t][k], goterr[t][k]));
    jh += j ? ",[" : "[";
    bool f = true;
    for (uint64_t h : hs) {
      jh += fmt("%s\"%016llx\"", f ? "" : ",", (unsigned long long)h);
      f = false;
    }
    jh += "]";
  }
  jh += "]";
  fprintf(OUT, "{\"job_hashes\":%s,", jh.c_str());
  fprintf(OUT, "\"mode\":\"stress\",\"threads\":%d,\"streams\":%ld,\"events\":%ld,\"jobs\":%d,\"jobs_accepted\":%d,\"qng_calls\":%ld,\"qng_etol\":%ld,\"integration_with_handler_on\":%ld,", nthreads, streams,
          events, NJOBS, accepted, g_qng_calls.load(), g_qng_etol.load(), g_i1_violations.load());
  emit_mismatches(OUT, "mismatches", mm);
  fprintf(OUT, "}\n");
  return 0;
}

// ------------------------------------------------------------------ sweep: all threads walk all configurations
struct SweepCfg
{
  char kind;
  std::string name;
  int level = 0, mode = 0;
  std::vector<double> thr;
};

static uint64_t sweep_one(const SweepCfg & c, uint64_t seed, int nev, std::string & err)
{
  uint64_t h = 1469598103934665603ULL;
  try {
    decay0_generator g;
    if (c.kind == 'B') {
      g.set_decay_category(decay0_generator::DECAY_CATEGORY_BACKGROUND);
      g.set_decay_isotope(c.name);
    } else {
      g.set_decay_category(decay0_generator::DECAY_CATEGORY_DBD);
      g.set_decay_isotope(c.name);
      g.set_decay_dbd_level(c.level);
      g.set_decay_dbd_mode((bxdecay0::dbd_mode_type)c.mode);
    }
    uint64_t stream = (hash_str(c.name) + (uint64_t)c.mode * 131 + (uint64_t)c.level) << 16;
    // a third of the configurations carry a momentum-direction-lock operation (circular or rectangular cut, apertures that differ from
    // one configuration to the next): post-generation operations run inside shoot() on every thread too
    if ((stream >> 16) % 3 == 0) {
      auto op = std::make_shared<bxdecay0::momentum_direction_lock_event_op>();
      double ap1 = 0.2 + 0.1 * (double)((stream >> 18) % 7), ap2 = 0.1 + 0.05 * (double)((stream >> 21) % 5);
      if ((stream >> 17) % 2) op->set_with_aperture_rectangular_cut(bxdecay0::INVALID_PARTICLE, 0, 0.3, 1.1, ap1, ap2, false);
      else op->set(bxdecay0::INVALID_PARTICLE, 0, 0.3, 1.1, ap1, false);
      g.add_operation(op);
    }
    Tape t(seed, stream);
    g.initialize(t);
    bxdecay0::event e;
    auto shoot = [&]() {
      t.rewind();
      g.shoot(t, e);
      h = (h ^ hash_str(event_json(e))) * 1099511628211ULL;
    };
    for (int i = 0; i < nev; i++) {
      t.reseed(seed, ++stream);
      shoot();
    }
    // the leading branch draws steered to each side of (a sample of) the scheme's branching thresholds
    size_t step = std::max<size_t>(1, c.thr.size() / 24);
    for (size_t k = 0; k < c.thr.size(); k += step)
      for (size_t cell : {1, 2, 3})
        for (double eps : {-1e-9, 1e-9}) {
          double v = c.thr[k] + eps;
          if (!(v > 0 && v < 1)) continue;
          // several tapes per steered branch: what follows the steered draw (conversion or pair, rejection loops) is decided by later
          // deviates - a sub-branch taken by a quarter of the decays that reach the branch should be entered on every thread
          for (int rep = 0; rep < 16; rep++) {
            t.reseed(seed, ++stream);
            t.pin(cell, v);
            shoot();
          }
        }
  } catch (std::exception & x) {
    err = x.what();
  }
  return h;
}

static int run_sweep(uint64_t seed, int nthreads, const char * specfile, int nev)
{
  gsl_set_error_handler(sentinel_handler);
  std::vector<SweepCfg> cfgs;
  {
    std::ifstream in(specfile);
    std::string line;
    while (std::getline(in, line)) {
      if (line.empty()) continue;
      std::istringstream ls(line);
      SweepCfg c;
      std::string k;
      ls >> k >> c.name;
      c.kind = k[0];
      if (c.kind == 'B') {
        double v;
        while (ls >> v)
          if (v > 0 && v < 1) c.thr.push_back(v);
      } else {
        ls >> c.level >> c.mode;
      }
      cfgs.push_back(c);
    }
  }
  const int n = (int)cfgs.size();
  std::atomic<int> ready{0};
  std::atomic<bool> go{false};
  std::atomic<int> barrier_count{0};
  std::vector<std::vector<uint64_t>> got(nthreads, std::vector<uint64_t>(n, 0));
  std::vector<std::vector<std::string>> goterr(nthreads, std::vector<std::string>(n));
  std::vector<std::thread> th;
  for (int t = 0; t < nthreads; t++) {
    th.emplace_back([&, t] {
      t_id = t;
      ready++;
      while (!go.load()) std::this_thread::yield();
      // first pass: all threads enter the SAME configuration together (a barrier before each one).  ThreadSanitizer orders accesses by
      // happens-before: when the threads visit a scheme at different times, any release/acquire pair in between - the guard of a
      // function-local static initialised by one thread and met by the other, a mutex - orders the two visits and hides a race between
      // them.  Inside one barrier window nothing does.
      for (int k = 0; k < n; k++) {
        int arrived = ++barrier_count;
        while (barrier_count.load() < (k + 1) * nthreads) std::this_thread::yield();
        (void)arrived;
        got[t][k] = sweep_one(cfgs[k], seed, nev, goterr[t][k]);
      }
      // second pass: thread 0 walks forwards, thread 1 backwards, the others start at staggered offsets (different schemes side by side)
      for (int k = 0; k < n; k++) {
        int j = (t % 2 == 0) ? (k + (t / 2) * 3) % n : (n - 1 - ((k + (t / 2) * 3) % n));
        std::string e2;
        uint64_t h2 = sweep_one(cfgs[j], seed, nev, e2);
        if (h2 != got[t][j] || e2 != goterr[t][j]) got[t][j] = h2 ^ 0x5a5a5a5aULL; // a stream that differs between the passes differs from thread 0's too
      }
    });
  }
  while (ready.load() < nthreads) std::this_thread::yield();
  go = true;
  for (auto & x : th) x.join();
  std::map<std::string, Mismatch> mm;
  long streams = 0, refused = 0;
  for (int j = 0; j < n; j++) {
    if (!goterr[0][j].empty()) refused++;
    for (int t = 1; t < nthreads; t++) {
      streams++;
      if (got[t][j] != got[0][j] || goterr[t][j] != goterr[0][j]) {
        std::string lab = cfgs[j].kind == 'B' ? "bkg/" + cfgs[j].name : fmt("dbd/%s/L%d/m%d", cfgs[j].name.c_str(), cfgs[j].level, cfgs[j].mode);
        std::string key = "sweep|threads-disagree|" + lab;
        Mismatch & x = mm[key];
        if (x.count++ == 0) {
          x.key = key;
          x.detail = fmt("%s: the event stream produced on thread %d differs from the one produced on thread 0 from the same tapes (errors '%s' vs '%s')", lab.c_str(), t,
                         goterr[t][j].substr(0, 80).c_str(), goterr[0][j].substr(0, 80).c_str());
        }
      }
    }
  }
  if (g_sentinel_calls.load() > 0) {
    mm["sweep|default-handler-invoked"].key = "sweep|default-handler-invoked";
    mm["sweep|default-handler-invoked"].detail = fmt("the process-wide GSL error handler was invoked %ld times during the concurrent sweep", g_sentinel_calls.load());
    mm["sweep|default-handler-invoked"].count = g_sentinel_calls.load();
  }
  fprintf(OUT, "{\"mode\":\"sweep\",\"threads\":%d,\"configurations\":%d,\"refused\":%ld,\"streams\":%ld,\"qng_calls\":%ld,\"integration_with_handler_on\":%ld,", nthreads, n, refused, streams,
          g_qng_calls.load(), g_i1_violations.load());
  emit_mismatches(OUT, "mismatches", mm);
  fprintf(OUT, "}\n");
  return 0;
}

// ------------------------------------------------------------------ firstuse: lazily initialised library state hit concurrently
static int run_firstuse(uint64_t seed, int nthreads, const char * evfile)
{
  gsl_set_error_handler(sentinel_handler);
  unsetenv("BXDECAY0_DBD_GA_DATA_DIR"); // the stand-alone gA sampler then looks its table up through the resource directory
  typedef std::function<uint64_t(uint64_t)> Entry;
  std::vector<std::pair<std::string, Entry>> entries;
  auto gen_entry = [](bool dbd, const char * name, int mode) {
    return [dbd, name, mode](uint64_t sd) -> uint64_t {
      decay0_generator g;
      g.set_decay_category(dbd ? decay0_generator::DECAY_CATEGORY_DBD : decay0_generator::DECAY_CATEGORY_BACKGROUND);
      g.set_decay_isotope(name);
      if (dbd) {
        g.set_decay_dbd_level(0);
        g.set_decay_dbd_mode((bxdecay0::dbd_mode_type)mode);
      }
      Tape t(sd, 17);
      g.initialize(t);
      bxdecay0::event e;
      uint64_t h = 1469598103934665603ULL;
      for (int i = 0; i < 20; i++) {
        g.shoot(t, e);
        h = (h ^ hash_str(event_json(e))) * 1099511628211ULL;
      }
      return h;
    };
  };
  entries.push_back({"dbd_gA stand-alone (shipped Test table, rejection)", [](uint64_t sd) -> uint64_t {
                       bxdecay0::dbd_gA g;
                       g.set_dataset_version(".");
                       g.set_nuclide("Test");
                       g.set_process(bxdecay0::dbd_gA::PROCESS_G0);
                       g.set_shooting(bxdecay0::dbd_gA::SHOOTING_REJECTION);
                       g.initialize();
                       Tape t(sd, 18);
                       t.cap = 200000;
                       uint64_t h = 1469598103934665603ULL;
                       for (int i = 0; i < 20; i++) {
                         double e1 = 0, e2 = 0;
                         g.shoot_e1_e2(t, e1, e2);
                         h = (h ^ hash_str(fmt("%.17g %.17g", e1, e2))) * 1099511628211ULL;
                       }
                       return h;
                     }});
  entries.push_back({"decay0_generator Mo100 0nubb", gen_entry(true, "Mo100", 1)});
  entries.push_back({"decay0_generator Co60", gen_entry(false, "Co60", 0)});
  entries.push_back({"decay0_generator Zn70 2nubb (quadrature)", gen_entry(true, "Zn70", 4)});
  entries.push_back({"catalogue accessors", [](uint64_t) -> uint64_t {
                       uint64_t h = 0;
                       for (auto & x : bxdecay0::dbd_isotopes()) h += hash_str(x);
                       for (auto & x : bxdecay0::background_isotopes()) h += hash_str(x);
                       for (auto & kv : bxdecay0::dbd_modes()) h += hash_str(kv.second.unique_label);
                       return h;
                     }});
  entries.push_back({"resource lookup", [](uint64_t) -> uint64_t {
                       return hash_str(bxdecay0::get_resource("description/dbd_isotopes.lis", true).substr(0, 0)) + bxdecay0::get_resource_dir(true).size() * 0;
                     }});
  entries.push_back({"event_reader", [evfile](uint64_t) -> uint64_t {
                       bxdecay0::event_reader::config_type cfg;
                       cfg.event_files.push_back(evfile);
                       bxdecay0::event_reader rd(cfg);
                       uint64_t h = 0;
                       while (rd.has_next_event()) {
                         bxdecay0::event e;
                         rd.load_next_event(e);
                         h = (h ^ hash_str(event_json(e))) * 1099511628211ULL;
                       }
                       return h;
                     }});
  const int ne = (int)entries.size();
  std::atomic<int> ready{0};
  std::atomic<bool> go{false};
  std::vector<std::vector<uint64_t>> got(nthreads, std::vector<uint64_t>(ne, 0));
  std::vector<std::vector<std::string>> goterr(nthreads, std::vector<std::string>(ne));
  std::vector<std::thread> th;
  for (int t = 0; t < nthreads; t++) {
    th.emplace_back([&, t] {
      t_id = t;
      ready++;
      while (!go.load()) std::this_thread::yield();
      for (int k = 0; k < ne; k++) {
        int j = (int)((seed + (uint64_t)t * 3 + (uint64_t)k) % (uint64_t)ne); // the first call of each thread is a different entry point
        try {
          got[t][j] = entries[j].second(seed);
        } catch (std::exception & x) {
          goterr[t][j] = x.what();
        }
      }
    });
  }
  while (ready.load() < nthreads) std::this_thread::yield();
  go = true;
  for (auto & x : th) x.join();
  std::map<std::string, Mismatch> mm;
  long streams = 0;
  // sequential truth, afterwards
  for (int j = 0; j < ne; j++) {
    uint64_t want = 0;
    std::string werr;
    try {
      want = entries[j].second(seed);
    } catch (std::exception & x) {
      werr = x.what();
    }
    for (int t = 0; t < nthreads; t++) {
      streams++;
      if (got[t][j] != want || goterr[t][j] != werr) {
        std::string key = "firstuse|differs-from-sequential|" + entries[j].first;
        Mismatch & x = mm[key];
        if (x.count++ == 0) {
          x.key = key;
          x.detail = fmt("%s: result on thread %d (first calls concurrent) differs from the sequential one (errors '%s' vs '%s')", entries[j].first.c_str(), t,
                         goterr[t][j].substr(0, 100).c_str(), werr.substr(0, 100).c_str());
        }
      }
    }
  }
  fprintf(OUT, "{\"mode\":\"firstuse\",\"threads\":%d,\"entries\":%d,\"streams\":%ld,", nthreads, ne, streams);
  emit_mismatches(OUT, "mismatches", mm);
  fprintf(OUT, "}\n");
  return 0;
}

int main(int argc, char ** argv)
{
  if (argc < 3) return 2;
  std::string mode = argv[1];
  if (mode == "firstuse" && argc >= 5) return run_firstuse(strtoull(argv[2], 0, 10), atoi(argv[3]), argv[4]);
  if (mode == "sweep" && argc >= 6) return run_sweep(strtoull(argv[2], 0, 10), atoi(argv[3]), argv[4], atoi(argv[5]));
  if (mode == "sched") return run_sched(atoi(argv[2]));
  if (mode == "alone" && argc >= 4) {
    // one configuration, one instance, one thread, nothing else in the process
    if (argc > 4 && std::string(argv[4]) != "-") setenv("BXDECAY0_DBD_GA_DATA_DIR", argv[4], 1);
    int j = atoi(argv[3]);
    if (j < 0 || j >= NJOBS) return 2;
    std::string err;
    std::vector<std::string> v = run_job(JOBS[j], strtoull(argv[2], 0, 10), 40, err);
    uint64_t h = hash_str(err);
    for (auto & x : v) h = h * 1099511628211ull ^ hash_str(x);
    fprintf(OUT, "{\"mode\":\"alone\",\"job\":%d,\"njobs\":%d,\"name\":%s,\"level\":%d,\"dbd_mode\":%d,\"events\":%zu,\"hash\":\"%016llx\"}\n", j, NJOBS, jstr(JOBS[j].name).c_str(), JOBS[j].level,
            JOBS[j].mode, v.size(), (unsigned long long)h);
    return 0;
  }
  if (mode == "stress") {
    if (argc > 4 && std::string(argv[4]) != "-") setenv("BXDECAY0_DBD_GA_DATA_DIR", argv[4], 1);
    return run_stress(strtoull(argv[2], 0, 10), atoi(argv[3]));
  }
  return 2;
}
