// C04 monitor: an event is well-formed (DESIGN.md C04).
#ifndef VERIF_WELLFORMED_H
#define VERIF_WELLFORMED_H

#include <cmath>
#include <cstdio>
#include <string>

#include <bxdecay0/event.h>

#include "evutil.h"

namespace verif {

  // emax: bound on kinetic energy (MeV); returns true if well-formed, else key/detail
  inline bool wellformed(const bxdecay0::event & e, const std::string & want_generator, double emax, std::string & key,
                         std::string & detail)
  {
    char buf[256];
    const auto & pp = e.get_particles();
    if (pp.empty()) { key = "empty"; detail = "event has no particle"; return false; }
    if (pp.size() > 100) { key = "too-many"; snprintf(buf, sizeof buf, "%zu particles", pp.size()); detail = buf; return false; }
    if (!(e.get_time() == 0.0)) { key = "evtime"; snprintf(buf, sizeof buf, "event time %.17g", e.get_time()); detail = buf; return false; }
    if (e.get_generator() != want_generator) { key = "generator"; detail = "generator label '" + e.get_generator() + "' != '" + want_generator + "'"; return false; }
    double tprev = 0.0;
    for (size_t i = 0; i < pp.size(); i++) {
      const auto & p = pp[i];
      int c = (int)p.get_code();
      if (!(c == 1 || c == 2 || c == 3 || c == 47)) { key = "species"; snprintf(buf, sizeof buf, "particle %zu species %d", i, c); detail = buf; return false; }
      if (!std::isfinite(p.get_px()) || !std::isfinite(p.get_py()) || !std::isfinite(p.get_pz())) {
        key = "nonfinite-momentum"; snprintf(buf, sizeof buf, "particle %zu p=(%g,%g,%g)", i, p.get_px(), p.get_py(), p.get_pz()); detail = buf; return false;
      }
      double ek = ekin(p);
      if (!(ek >= 0.0) || !(ek <= emax)) { key = "energy-bound"; snprintf(buf, sizeof buf, "particle %zu species %d Ekin=%.9g MeV (bound %.6g)", i, c, ek, emax); detail = buf; return false; }
      double t = p.get_time();
      if (!std::isfinite(t)) { key = "nonfinite-time"; snprintf(buf, sizeof buf, "particle %zu time %g", i, t); detail = buf; return false; }
      if (t < 0.0) { key = "negative-time"; snprintf(buf, sizeof buf, "particle %zu time %.17g", i, t); detail = buf; return false; }
      if (t < tprev) { key = "time-order"; snprintf(buf, sizeof buf, "particle %zu time %.17g < previous %.17g", i, t, tprev); detail = buf; return false; }
      tprev = t;
    }
    if (!e.is_valid()) { key = "is_valid"; detail = "event::is_valid() is false"; return false; }
    return true;
  }

} // namespace verif
#endif
