// C10: the momentum-direction-lock operation only re-orients (DESIGN.md C10).
// usage: c10_mdl <seed> <n_cases> <shard> <nshards>
// Output: one JSON line with counts and mismatches.
#include <cmath>
#include <cstdlib>
#include <memory>
#include <set>

#include <bxdecay0/decay0_generator.h>
#include <bxdecay0/event.h>
#include <bxdecay0/mdl_event_op.h>
#include <bxdecay0/utils.h>

#include "diffcore_port.h"

using namespace verif;
using bxdecay0::decay0_generator;
typedef bxdecay0::momentum_direction_lock_event_op mdl_op;

struct GenSpec
{
  char kind;
  const char * name;
  int level, mode;
};
static const GenSpec GENS[] = {
    {'B', "Co60", 0, 0},  {'B', "Bi207+Pb207m", 0, 0}, {'B', "Bi214+Po214", 0, 0}, {'B', "Tl208", 0, 0}, {'B', "K40", 0, 0},   {'B', "Na22", 0, 0},
    {'B', "Am241", 0, 0}, {'B', "Y88", 0, 0},          {'B', "Eu152", 0, 0},       {'B', "Ac228", 0, 0}, {'B', "Pa234m", 0, 0}, {'B', "Cs137+Ba137m", 0, 0},
    {'B', "Sr90", 0, 0},  {'B', "Zn65", 0, 0},         {'B', "Bi212+Po212", 0, 0}, {'B', "Ra226", 0, 0}, {'B', "I126", 0, 0},   {'B', "Ta182", 0, 0},
    {'D', "Mo100", 0, 1}, {'D', "Mo100", 1, 3},        {'D', "Mo100", 2, 1},       {'D', "Nd150", 2, 1}, {'D', "Cd106", 0, 1},  {'D', "Cd106", 1, 9},
    {'D', "Cd106", 0, 11}, {'D', "Ca48", 2, 7},        {'D', "Zr96", 0, 20},       {'D', "Ge76", 3, 3},  {'D', "Se82", 0, 2},   {'D', "Xe136", 0, 17},
};
static const int NGENS = sizeof(GENS) / sizeof(GENS[0]);

struct OpCfg
{
  int species; // 0 = all
  int rank;
  double phi, theta;     // cone axis (radians)
  double ap1, ap2;       // ap2 < 0: circular
  bool err_missing;
  bool axis_form;        // set through (x,y,z) instead of (phi,theta)
  double axis_scale;     // non-unit axis vectors must work too
  std::string str() const
  {
    return fmt("species=%d rank=%d axis(phi=%.17g,theta=%.17g,%s x%.3g) aperture=%.17g aperture2=%.17g error_on_missing=%d", species, rank, phi, theta,
               axis_form ? "xyz" : "angles", axis_scale, ap1, ap2, err_missing);
  }
};

static void configure(mdl_op & op, const OpCfg & c)
{
  if (verif_debug_flags()) op.debug = true;
  bxdecay0::particle_code code = c.species == 0 ? bxdecay0::INVALID_PARTICLE : (bxdecay0::particle_code)c.species;
  if (c.axis_form) {
    double x = c.axis_scale * std::cos(c.phi) * std::sin(c.theta), y = c.axis_scale * std::sin(c.phi) * std::sin(c.theta), z = c.axis_scale * std::cos(c.theta);
    if (c.ap2 < 0) op.set(code, c.rank, x, y, z, c.ap1, c.err_missing);
    else op.set_with_aperture_rectangular_cut(code, c.rank, x, y, z, c.ap1, c.ap2, c.err_missing);
  } else {
    if (c.ap2 < 0) op.set(code, c.rank, c.phi, c.theta, c.ap1, c.err_missing);
    else op.set_with_aperture_rectangular_cut(code, c.rank, c.phi, c.theta, c.ap1, c.ap2, c.err_missing);
  }
}

static const char * label_of(int species)
{
  switch (species) {
  case 0: return "all";
  case 1: return "gamma";
  case 2: return "e+";
  case 3: return "e-";
  case 47: return "alpha";
  }
  return "*";
}

struct V3
{
  long double x, y, z;
};
static V3 mom(const bxdecay0::particle & p) { return {p.get_px(), p.get_py(), p.get_pz()}; }
static long double dot(V3 a, V3 b) { return a.x * b.x + a.y * b.y + a.z * b.z; }
static long double norm(V3 a) { return sqrtl(dot(a, a)); }
static long double triple(V3 a, V3 b, V3 c) { return a.x * (b.y * c.z - b.z * c.y) - a.y * (b.x * c.z - b.z * c.x) + a.z * (b.x * c.y - b.y * c.x); }

int main(int argc, char ** argv)
{
  if (argc < 5) return 2;
  uint64_t seed = strtoull(argv[1], 0, 10);
  long ncases = atol(argv[2]);
  int shard = atoi(argv[3]), nshards = atoi(argv[4]);
  Rng r(seed, 1010 + shard);
  std::map<std::string, Mismatch> mm;
  long chains = 0, applications = 0, target_mode = 0, selection_mode = 0, nothing = 0, rect = 0, degenerate = 0, errors_raised = 0;
  std::set<std::string> classes;
  std::string sample;
  size_t max_op_draws = 0;

  auto fail = [&](const std::string & key, const std::string & detail, const OpCfg & c, const bxdecay0::event & before, const bxdecay0::event & after, Tape & t) {
    Mismatch & x = mm[key];
    if (x.count++ == 0) {
      x.key = key;
      x.detail = detail + " [" + c.str() + "]";
      x.ref = event_json(before);
      x.port = event_json(after);
      x.tape = t.prefix_json(std::min<size_t>(t.pos, 40));
    }
  };

  for (int gi = shard; gi < NGENS; gi += nshards) {
    const GenSpec & gs = GENS[gi];
    auto make = [&](bool with_op, const OpCfg * oc) {
      std::unique_ptr<decay0_generator> g(new decay0_generator);
      if (gs.kind == 'B') {
        g->set_decay_category(decay0_generator::DECAY_CATEGORY_BACKGROUND);
        g->set_decay_isotope(gs.name);
      } else {
        g->set_decay_category(decay0_generator::DECAY_CATEGORY_DBD);
        g->set_decay_isotope(gs.name);
        g->set_decay_dbd_level(gs.level);
        g->set_decay_dbd_mode((bxdecay0::dbd_mode_type)gs.mode);
      }
      if (with_op) {
        auto op = std::make_shared<mdl_op>();
        configure(*op, *oc);
        g->add_operation(op);
      }
      Tape ti(seed, 3);
      g->initialize(ti);
      return g;
    };
    auto g_plain = make(false, nullptr);
    for (long ci = 0; ci < ncases; ci++) {
      // ---- a random operation configuration
      OpCfg c;
      static const int sp[] = {0, 1, 2, 3, 47, 13};
      c.species = sp[r.below(6)];
      c.rank = (int)r.below(7) - 1; // -1 .. 5
      bool bias_nonempty = r.below(10) < 7;
      switch (r.below(10)) {
      case 0: c.theta = 0; break;                 // +z pole
      case 1: c.theta = M_PI; break;              // -z pole
      case 2: c.theta = M_PI / 2; break;
      case 3: c.theta = M_PI / 4; break;          // axes lying in a coordinate plane (one component exactly or nearly zero)
      case 4: c.theta = 3 * M_PI / 4; break;
      default: c.theta = std::acos(1 - 2 * r.uniform());
      }
      switch (r.below(9)) {
      case 0: c.phi = M_PI; break;                // the +-pi seam
      case 1: c.phi = -M_PI; break;
      case 2: c.phi = 0; break;
      case 3: c.phi = M_PI / 2; break;            // +y / -y: the x component of the axis vanishes
      case 4: c.phi = -M_PI / 2; break;
      default: c.phi = -M_PI + 2 * M_PI * r.uniform();
      }
      // the colatitude may be given outside [0, pi] (200 or 270 or -45 degrees: sin(theta) < 0 mirrors the azimuth); the axis is what
      // (cos phi sin theta, sin phi sin theta, cos theta) says, for the radian and for the degree entry point alike
      if (r.below(6) == 0) c.theta = -M_PI + 3 * M_PI * r.uniform();
      bool rectangular = r.below(3) == 0;
      if (rectangular) {
        // half-angles in (0, pi/2) with analytic acceptance >= 1e-3 (see DESIGN): ratio of tangents <= 300
        double t1 = std::pow(10.0, -3 + 3.3 * r.uniform()), ratio = std::pow(10.0, -2.4 + 4.8 * r.uniform());
        double t2 = std::min(t1 * ratio, 50.0);
        if (t2 < t1 / 300) t2 = t1 / 300;
        if (r.below(8) == 0) t1 = std::tan(M_PI / 2 - 1e-3);
        if (t2 < t1 / 300) t2 = t1 / 300;
        if (t1 < t2 / 300) t1 = t2 / 300;
        c.ap1 = std::atan(t1);
        c.ap2 = std::atan(t2);
      } else {
        c.ap2 = -1;
        switch (r.below(6)) {
        case 0: c.ap1 = 0; break;
        case 1: c.ap1 = M_PI / 2; break;
        case 2: c.ap1 = M_PI - 1e-6; break;
        case 3: c.ap1 = 1e-9; break;
        default: c.ap1 = M_PI * r.uniform();
        }
      }
      c.err_missing = r.below(3) == 0;
      c.axis_form = r.below(2) == 0;
      c.axis_scale = c.axis_form ? std::pow(10.0, -3 + 6 * r.uniform()) : 1.0;

      // ---- E_0: the decay without the operation
      Tape T(seed, ((uint64_t)gi << 32) + ci);
      bxdecay0::event E0;
      T.rewind();
      g_plain->shoot(T, E0);
      size_t n0 = T.pos;
      if (bias_nonempty && !E0.get_particles().empty()) {
        // most cases should select something: take the species of a particle that exists and a rank within its multiplicity
        const auto & pp = E0.get_particles();
        int pick = (int)r.below(pp.size());
        if (r.below(4) != 0) c.species = (int)pp[pick].get_code();
        else c.species = 0;
        int mult = 0;
        for (auto & q : pp)
          if (c.species == 0 || (int)q.get_code() == c.species) mult++;
        c.rank = (int)r.below(mult + 2) - 1; // -1 .. mult (mult itself selects nothing)
      }
      // ---- E_op: the same shot with the operation registered in the generator
      bxdecay0::event Eop;
      bool op_threw = false;
      std::string exc;
      size_t nop = 0;
      {
        auto g = make(true, &c);
        T.rewind();
        try {
          g->shoot(T, Eop);
        } catch (tape_exhausted &) {
          op_threw = true;
          exc = "cap";
        } catch (std::logic_error & x) {
          op_threw = true;
          exc = x.what();
        }
        nop = T.pos;
      }
      applications++;
      if (nop - n0 > max_op_draws && !op_threw) max_op_draws = nop - n0;
      // ---- which particles are selected, by the documented meaning
      const auto & p0 = E0.get_particles();
      std::vector<int> filtered;
      for (size_t i = 0; i < p0.size(); i++)
        if (c.species == 0 || (int)p0[i].get_code() == c.species) filtered.push_back((int)i);
      int target = -1;
      std::vector<int> selected;
      if (c.rank >= 0) {
        if (c.rank < (int)filtered.size()) {
          target = filtered[c.rank];
          selected.push_back(target);
        }
      } else {
        selected = filtered;
      }
      std::string cls = fmt("%s/%s/%s", c.rank >= 0 ? "target" : "selection", rectangular ? "rect" : "circ", selected.empty() ? "none" : "some");
      classes.insert(cls + fmt("/g%d", gi));
      if (exc == "cap") {
        fail("unbounded-draws|" + cls, "the operation consumed more than the draw cap", c, E0, Eop, T);
        continue;
      }
      if (selected.empty()) {
        nothing++;
        if (c.err_missing) {
          if (!op_threw) fail("missing-particle|no-error-raised", "nothing selected and error_on_missing_particle set, but no std::logic_error", c, E0, Eop, T);
          else errors_raised++;
        } else {
          if (op_threw) fail("missing-particle|unexpected-error", "nothing selected, error_on_missing_particle not set, but raised: " + exc, c, E0, Eop, T);
          else if (!events_bit_identical(E0, Eop)) fail("missing-particle|event-changed", "nothing selected but the event changed", c, E0, Eop, T);
          else if (nop != n0) fail("missing-particle|draws", fmt("nothing selected but %zu deviates were consumed", nop - n0), c, E0, Eop, T);
        }
        continue;
      }
      if (op_threw) {
        fail("unexpected-exception|" + cls, "raised: " + exc, c, E0, Eop, T);
        continue;
      }
      // ---- draw discipline: a stand-alone operation applied to E_0 with the tape at n_0 reproduces E_op bit for bit
      {
        mdl_op op2;
        configure(op2, c);
        bxdecay0::event E2 = E0;
        T.seek(n0);
        op2(T, E2);
        if (T.pos != nop || !events_bit_identical(E2, Eop))
          fail("draw-discipline|" + cls, fmt("generator+operation used %zu deviates (decay alone %zu); stand-alone operation on the plain decay, tape at %zu, ends at %zu and %s", nop, n0, n0,
                                             T.pos, events_bit_identical(E2, Eop) ? "gives the same event" : "gives a different event"),
               c, E0, Eop, T);
        // the same configuration applied to an operation object that has been configured many times before (never reset): whatever the
        // earlier configurations were (rectangular, circular, invalid ones that threw half-way), it behaves like the fresh object
        {
          static mdl_op reused;
          bxdecay0::event E5 = E0;
          std::string exc5;
          size_t end5 = 0;
          try {
            configure(reused, c);
            T.seek(n0);
            reused(T, E5);
            end5 = T.pos;
          } catch (std::exception & x) {
            exc5 = x.what();
          }
          if (!exc5.empty()) fail("reconfigured-op|exception", "an operation object configured before raises where a fresh one does not: " + exc5, c, E2, E5, T);
          else if (end5 != nop || !events_bit_identical(E5, E2))
            fail("reconfigured-op|" + cls, fmt("an operation object that was configured differently before gives another event than a fresh object with the same configuration (ends at %zu vs %zu)", end5, nop), c, E2, E5, T);
        }
        // several operations registered in one generator: they run one after the other, in registration order, on the same stream -
        // the event equals the plain decay with the stand-alone operations applied in sequence (all MDL operations share one name())
        if (ci % 3 == 0) {
          std::vector<OpCfg> chain{c};
          int extra = 1 + (int)r.below(2);
          for (int k = 0; k < extra; k++) {
            OpCfg d;
            static const int sp2[] = {0, 1, 3, 2, 47};
            d.species = sp2[r.below(5)];
            if (r.below(2) == 0 && !E0.get_particles().empty()) d.species = (int)E0.get_particles()[r.below(E0.get_particles().size())].get_code();
            d.rank = (int)r.below(3) - 1;
            d.phi = -M_PI + 2 * M_PI * r.uniform();
            d.theta = std::acos(1 - 2 * r.uniform());
            d.ap1 = 0.05 + 1.5 * r.uniform();
            d.ap2 = r.below(4) == 0 ? 0.3 + r.uniform() : -1;
            d.err_missing = false;
            d.axis_form = r.below(2) == 0;
            d.axis_scale = 1.0;
            chain.push_back(d);
          }
          std::unique_ptr<decay0_generator> g(new decay0_generator);
          if (gs.kind == 'B') {
            g->set_decay_category(decay0_generator::DECAY_CATEGORY_BACKGROUND);
            g->set_decay_isotope(gs.name);
          } else {
            g->set_decay_category(decay0_generator::DECAY_CATEGORY_DBD);
            g->set_decay_isotope(gs.name);
            g->set_decay_dbd_level(gs.level);
            g->set_decay_dbd_mode((bxdecay0::dbd_mode_type)gs.mode);
          }
          for (auto & d : chain) {
            auto op = std::make_shared<mdl_op>();
            configure(*op, d);
            g->add_operation(op);
          }
          Tape ti(seed, 3);
          g->initialize(ti);
          bxdecay0::event Ec, Es = E0;
          std::string excc, excs;
          size_t endc = 0, ends = 0;
          T.rewind();
          try {
            g->shoot(T, Ec);
            endc = T.pos;
          } catch (std::exception & x) {
            excc = x.what();
          }
          T.seek(n0);
          try {
            for (auto & d : chain) {
              mdl_op o;
              configure(o, d);
              o(T, Es);
            }
            ends = T.pos;
          } catch (std::exception & x) {
            excs = x.what();
          }
          chains++;
          std::string all;
          for (auto & d : chain) all += " {" + d.str() + "}";
          if (excc.empty() != excs.empty())
            fail("operation-chain|exception", fmt("%zu operations registered in one generator: generator %s, stand-alone sequence %s;%s", chain.size(), excc.empty() ? "returns" : ("raises " + excc).c_str(),
                                                  excs.empty() ? "returns" : ("raises " + excs).c_str(), all.c_str()),
                 c, Es, Ec, T);
          else if (excc.empty() && (endc != ends || !events_bit_identical(Ec, Es)))
            fail("operation-chain|" + cls, fmt("%zu operations registered in one generator do not give the plain decay followed by the stand-alone operations in registration order "
                                                "(generator ends at deviate %zu, sequence at %zu; events %s);%s",
                                                chain.size(), endc, ends, events_bit_identical(Ec, Es) ? "equal" : "differ", all.c_str()),
                 c, Es, Ec, T);
        }
        if (c.rank >= 0 && op2.get_last_target_index() != target)
          fail("last-target-index|" + cls, fmt("get_last_target_index() = %d, the rank-%d particle of the filtered species is #%d", op2.get_last_target_index(), c.rank, target), c, E0, Eop, T);
        // degree-based entry point == radian-based setters with converted values
        if (!c.axis_form) {
          mdl_op op3;
          mdl_op::config_type cfg;
          cfg.particle_label = label_of(c.species);
          if (c.species != 13) {
            cfg.target_particle_rank = c.rank;
            cfg.cone_phi_degree = c.phi * 180.0 / M_PI;
            cfg.cone_theta_degree = c.theta * 180.0 / M_PI;
            cfg.cone_aperture_degree = c.ap1 * 180.0 / M_PI;
            cfg.cone_aperture2_degree = c.ap2 < 0 ? -1.0 : c.ap2 * 180.0 / M_PI;
            cfg.error_on_missing_particle = c.err_missing;
            op3.set(cfg);
            // the same values through the radian entry point
            mdl_op op4;
            OpCfg c4 = c;
            c4.phi = cfg.cone_phi_degree * M_PI / 180.0;
            c4.theta = cfg.cone_theta_degree * M_PI / 180.0;
            c4.ap1 = cfg.cone_aperture_degree * M_PI / 180.0;
            c4.ap2 = c.ap2 < 0 ? -1.0 : cfg.cone_aperture2_degree * M_PI / 180.0;
            configure(op4, c4);
            bxdecay0::event E3 = E0, E4 = E0;
            T.seek(n0);
            op3(T, E3);
            size_t e3 = T.pos;
            T.seek(n0);
            op4(T, E4);
            bool same = e3 == T.pos && E3.get_particles().size() == E4.get_particles().size();
            for (size_t i = 0; same && i < E3.get_particles().size(); i++) {
              V3 a = mom(E3.get_particles()[i]), b = mom(E4.get_particles()[i]);
              if (fabsl(a.x - b.x) + fabsl(a.y - b.y) + fabsl(a.z - b.z) > 1e-12 * (norm(a) + 1e-300)) same = false;
            }
            {
              // a long-lived configuration record, reset() and refilled with only what this request needs (the second half-angle only
              // for a rectangular cut): the same operation as with a new record
              static mdl_op::config_type rc;
              rc.reset();
              rc.particle_label = cfg.particle_label;
              rc.target_particle_rank = cfg.target_particle_rank;
              rc.cone_phi_degree = cfg.cone_phi_degree;
              rc.cone_theta_degree = cfg.cone_theta_degree;
              rc.cone_aperture_degree = cfg.cone_aperture_degree;
              if (c.ap2 >= 0) rc.cone_aperture2_degree = cfg.cone_aperture2_degree;
              rc.error_on_missing_particle = cfg.error_on_missing_particle;
              bxdecay0::event E6 = E0;
              size_t e6 = 0;
              std::string exc6;
              try {
                mdl_op op6;
                op6.set(rc);
                T.seek(n0);
                op6(T, E6);
                e6 = T.pos;
              } catch (std::exception & x) {
                exc6 = x.what();
              }
              if (!exc6.empty() || e6 != e3 || !events_bit_identical(E6, E3))
                fail(std::string("reused-config-record|") + (rectangular ? "rect" : "circ"),
                     "a configuration record that was reset() and refilled gives another operation than a new record with the same values" + (exc6.empty() ? std::string() : ": " + exc6), c, E3, E6, T);
            }
            if (!same) fail(std::string("entry-points|") + (rectangular ? "rect" : "circ"), "set(config_type) in degrees and the radian setter with the converted values give different events", c, E3, E4, T);
          }
        }
      }
      // ---- invariants
      const auto & p1 = Eop.get_particles();
      if (p1.size() != p0.size()) {
        fail("particle-count|" + cls, fmt("%zu particles before, %zu after", p0.size(), p1.size()), c, E0, Eop, T);
        continue;
      }
      if (Eop.get_generator() != E0.get_generator() || !same_bits(Eop.get_time(), E0.get_time())) fail("event-header|" + cls, "generator label or event time changed", c, E0, Eop, T);
      bool bad = false;
      for (size_t i = 0; i < p0.size() && !bad; i++) {
        if (p0[i].get_code() != p1[i].get_code()) { fail("species|" + cls, fmt("particle %zu species changed", i), c, E0, Eop, T); bad = true; }
        else if (!same_bits(p0[i].get_time(), p1[i].get_time())) { fail("time|" + cls, fmt("particle %zu time changed", i), c, E0, Eop, T); bad = true; }
        else if (fabsl(norm(mom(p0[i])) - norm(mom(p1[i]))) > 1e-12 * norm(mom(p0[i]))) {
          fail("magnitude|" + cls, fmt("particle %zu |p| %.17Lg -> %.17Lg", i, norm(mom(p0[i])), norm(mom(p1[i]))), c, E0, Eop, T);
          bad = true;
        }
      }
      if (bad) continue;
      // cone geometry
      // the cone frame is defined by the axis *vector* the operation receives (both entry points reduce to it):
      // phi_C = atan2(y, x), theta_C = acos(z/|axis|); exactly at the +z pole the longitude is undefined and 0 by convention
      double ax = c.axis_scale * std::cos(c.phi) * std::sin(c.theta), ay = c.axis_scale * std::sin(c.phi) * std::sin(c.theta), az = c.axis_scale * std::cos(c.theta);
      long double amag = sqrtl((long double)ax * ax + (long double)ay * ay + (long double)az * az);
      V3 axis = {ax / amag, ay / amag, az / amag};
      long double fphi = atan2l((long double)ay, (long double)ax), ftheta = acosl(std::min<long double>(1.0L, std::max<long double>(-1.0L, az / amag)));
      auto in_cone = [&](const bxdecay0::particle & q, std::string & why) {
        V3 v = mom(q);
        long double n = norm(v);
        if (!rectangular) {
          long double cosang = dot(v, axis) / n;
          long double ang = acosl(std::min<long double>(1.0L, std::max<long double>(-1.0L, cosang)));
          // near the axis acos loses accuracy: compare through the chord as well
          V3 d = {v.x / n - axis.x, v.y / n - axis.y, v.z / n - axis.z};
          long double ang2 = 2 * asinl(std::min<long double>(1.0L, norm(d) / 2));
          long double a = std::min(ang, ang2);
          if (a <= c.ap1 + 1e-9L) return true;
          why = fmt("angle to the axis %.12Lg rad > aperture %.12g", a, c.ap1);
          return false;
        }
        // cone frame: v' = (Rz(phi) Ry(theta))^T v
        long double cp = cosl(fphi), sp_ = sinl(fphi), ct = cosl(ftheta), st = sinl(ftheta);
        V3 a = {cp * v.x + sp_ * v.y, -sp_ * v.x + cp * v.y, v.z};            // Rz(-phi)
        V3 b = {ct * a.x - st * a.z, a.y, st * a.x + ct * a.z};               // Ry(-theta)
        if (!(b.z > 0)) { why = "behind the cone apex plane"; return false; }
        long double tx = fabsl(b.x / b.z), ty = fabsl(b.y / b.z);
        if (tx <= tanl(c.ap1) * (1 + 1e-9L) + 1e-12L && ty <= tanl(c.ap2) * (1 + 1e-9L) + 1e-12L) return true;
        why = fmt("|x/z| = %.12Lg (limit tan(ap1) = %.12Lg), |y/z| = %.12Lg (limit tan(ap2) = %.12Lg)", tx, tanl(c.ap1), ty, tanl(c.ap2));
        return false;
      };
      if (rectangular) rect++;
      if (c.rank >= 0) {
        target_mode++;
        std::string why;
        if (!in_cone(p1[target], why)) fail(std::string("target-outside|") + (rectangular ? "rect" : "circ"), "target particle: " + why, c, E0, Eop, T);
        // rigid, proper rotation: all pairwise dot products and triple products preserved
        for (size_t i = 0; i < p0.size() && !bad; i++)
          for (size_t j = i + 1; j < p0.size() && !bad; j++) {
            long double d0 = dot(mom(p0[i]), mom(p0[j])), d1 = dot(mom(p1[i]), mom(p1[j]));
            if (fabsl(d0 - d1) > 1e-11L * norm(mom(p0[i])) * norm(mom(p0[j]))) {
              fail("not-rigid|dot", fmt("p%zu.p%zu %.15Lg -> %.15Lg", i, j, d0, d1), c, E0, Eop, T);
              bad = true;
            }
          }
        if (!bad && p0.size() >= 3) {
          long double t0 = triple(mom(p0[0]), mom(p0[1]), mom(p0[2])), t1 = triple(mom(p1[0]), mom(p1[1]), mom(p1[2]));
          long double sc = norm(mom(p0[0])) * norm(mom(p0[1])) * norm(mom(p0[2]));
          if (fabsl(t0 - t1) > 1e-10L * sc) fail("not-rigid|triple", fmt("triple product %.15Lg -> %.15Lg (improper rotation?)", t0, t1), c, E0, Eop, T);
        }
      } else {
        selection_mode++;
        std::set<int> sel(selected.begin(), selected.end());
        for (size_t i = 0; i < p0.size(); i++) {
          if (sel.count((int)i)) {
            std::string why;
            if (!in_cone(p1[i], why)) fail(std::string("selected-outside|") + (rectangular ? "rect" : "circ"), fmt("selected particle %zu: ", i) + why, c, E0, Eop, T);
          } else if (!particles_bit_identical(p0[i], p1[i])) {
            fail("unselected-touched|" + cls, fmt("particle %zu was not selected but changed", i), c, E0, Eop, T);
          }
        }
      }
      if (sample.empty() && c.rank >= 0 && p0.size() >= 2) sample = "{\"op\":" + jstr(c.str()) + ",\"before\":" + event_json(E0) + ",\"after\":" + event_json(Eop) + "}";
    }
    // ---- degenerate members of the range: a null half-angle in a rectangular cut must be refused or return, never spin
    for (int k = 0; k < 4; k++) {
      degenerate++;
      OpCfg c;
      c.species = 0; c.rank = 0; c.phi = 0.3; c.theta = 1.0; c.err_missing = false; c.axis_form = false; c.axis_scale = 1;
      c.ap1 = (k & 1) ? 0.0 : 0.2;
      c.ap2 = (k & 2) ? 0.0 : 0.1;
      if (k == 0) { c.ap1 = 0.0; c.ap2 = 0.0; }
      Tape T(seed, 0xDE6000 + gi * 8 + k);
      T.cap = 200000;
      bxdecay0::event E0;
      g_plain->shoot(T, E0);
      bxdecay0::event E = E0;
      try {
        mdl_op op;
        configure(op, c);
        op(T, E);
        // returned: the target must then honour both half-angles (i.e. sit on the degenerate window)
        const auto & q = E.get_particles()[0];
        V3 v = mom(q);
        long double cp = cosl(c.phi), sp_ = sinl(c.phi), ct = cosl(c.theta), st = sinl(c.theta);
        V3 a = {cp * v.x + sp_ * v.y, -sp_ * v.x + cp * v.y, v.z};
        V3 b = {ct * a.x - st * a.z, a.y, st * a.x + ct * a.z};
        if (!(b.z > 0 && fabsl(b.x / b.z) <= tanl(c.ap1) + 1e-9L && fabsl(b.y / b.z) <= tanl(c.ap2) + 1e-9L))
          fail("degenerate-rectangular|ignored", "a rectangular cut with a null half-angle was accepted and the target does not honour it", c, E0, E, T);
      } catch (tape_exhausted &) {
        fail("degenerate-rectangular|spins", "a rectangular cut with a null half-angle never accepts a direction (cut at 200000 deviates)", c, E0, E, T);
      } catch (std::logic_error &) {
        // refused: fine
      }
    }
  }
  fprintf(OUT, "{\"operation_chains\":%ld,", chains);
  fprintf(OUT, "\"applications\":%ld,\"target_mode\":%ld,\"selection_mode\":%ld,\"nothing_selected\":%ld,\"rectangular\":%ld,\"degenerate\":%ld,\"errors_raised\":%ld,"
               "\"classes\":%zu,\"max_op_draws\":%zu,\"sample\":%s,",
          applications, target_mode, selection_mode, nothing, rect, degenerate, errors_raised, classes.size(), max_op_draws, sample.empty() ? "null" : sample.c_str());
  emit_mismatches(OUT, "mismatches", mm);
  fprintf(OUT, "}\n");
  return 0;
}
