// C14: the gA sampler stays in the kinematic domain and inverts its cumulative tables.
// usage: c14_ga <list file> <seed> <n_random>
//   list file lines: <base dir> <nuclide> <process g0|g2|g22|g4> <has_pdf 0|1>
// Output: one JSON line per dataset (decoded tables are dumped for the Python-side comparison with the encoder's values).
#include <cmath>
#include <clocale>
#include <cstdlib>
#include <fstream>
#include <set>
#include <sstream>

#include <bxdecay0/dbd_gA.h>
#include <bxdecay0/event.h>
#include <bxdecay0/particle_utils.h>

#include "diffcore_port.h"

// The process's C numeric locale while the library reads a dataset (VERIF_LOCALE names a locale reachable through LOCPATH, e.g. one
// with a decimal comma, as any GUI application that calls setlocale(LC_ALL, "") under such a LANG has): the documented table format is
// locale-independent.  Only the library calls are wrapped - this harness prints its own numbers in the C locale.
static long g_locale_switches = 0;
struct NumericLocale
{
  NumericLocale()
  {
    const char * l = getenv("VERIF_LOCALE");
    if (l != nullptr && *l) {
      if (setlocale(LC_NUMERIC, l) != nullptr) g_locale_switches++;
      else g_locale_switches = -1000000;
    }
  }
  ~NumericLocale() { setlocale(LC_NUMERIC, "C"); }
};

using namespace verif;
using bxdecay0::dbd_gA;

static dbd_gA::process_type proc_of(const std::string & s)
{
  if (s == "g0") return dbd_gA::PROCESS_G0;
  if (s == "g2") return dbd_gA::PROCESS_G2;
  if (s == "g22") return dbd_gA::PROCESS_G22;
  return dbd_gA::PROCESS_G4;
}

struct Fixed : public bxdecay0::i_random
{
  std::vector<double> v;
  size_t pos = 0;
  double operator()() override { return v[pos++ % v.size()]; }
};

int main(int argc, char ** argv)
{
  if (argc < 4) return 2;
  uint64_t seed = strtoull(argv[2], 0, 10);
  long nrand = atol(argv[3]);
  std::ifstream lst(argv[1]);
  std::string line;
  while (std::getline(lst, line)) {
    if (line.empty()) continue;
    std::istringstream ls(line);
    std::string base, nuc, proc;
    int has_pdf = 1;
    ls >> base >> nuc >> proc >> has_pdf;
    setenv("BXDECAY0_DBD_GA_DATA_DIR", base.c_str(), 1);
    std::string lab = base.substr(base.rfind('/') + 1) + "/" + nuc + "/" + proc;
    std::map<std::string, Mismatch> mm;
    auto fail = [&](const std::string & key, const std::string & detail) {
      Mismatch & x = mm[key];
      if (x.count++ == 0) {
        x.key = key;
        x.detail = lab + ": " + detail;
      }
    };
    // ---- (a) decode the file with the library's decoder
    std::string path = base + "/data/dbd_gA/v1.0/" + nuc + "/" + proc + "/tab_ocdf.data";
    std::ifstream f(path);
    std::vector<std::vector<double>> arrays;
    double esum = 0, emin = 0, emax = 0, estep = 0;
    int n = 0;
    {
      std::string l;
      bool got_esum = false, got_hdr = false;
      while (std::getline(f, l)) {
        if (l.empty() || l[0] == '#') continue;
        if (!got_esum) {
          esum = atof(l.c_str());
          got_esum = true;
          continue;
        }
        if (!got_hdr) {
          std::istringstream h(l);
          std::string w;
          h >> w >> emin >> emax >> estep >> n;
          got_hdr = true;
          continue;
        }
        std::vector<double> a;
        try {
          {
            NumericLocale nl;
            bxdecay0::load_optimized_cdf_array(l, a);
          }
        } catch (std::exception & x) {
          fail("decode|exception", x.what());
        }
        arrays.push_back(a);
      }
    }
    std::string dump = "[";
    for (size_t i = 0; i < arrays.size(); i++) {
      dump += i ? ",[" : "[";
      for (size_t j = 0; j < arrays[i].size(); j++) dump += (j ? "," : "") + jnum(arrays[i][j]);
      dump += "]";
    }
    dump += "]";
    long samples = 0, events = 0, flat_runs = 0;
    std::set<std::string> cells;
    std::string sample;
    if (arrays.size() == (size_t)n + 1 && n >= 2) {
      const std::vector<double> & c1 = arrays[0];
      std::vector<double> E(n);
      double step = (emax - emin) / (n - 1);
      for (int i = 0; i < n; i++) E[i] = emin + i * step;
      // ---- (c) inverse-transform sampling against the decoded tables
      dbd_gA g;
      try {
        g.set_nuclide(nuc);
        g.set_process(proc_of(proc));
        g.set_shooting(dbd_gA::SHOOTING_INVERSE_TRANSFORM_METHOD);
        if (verif_debug_flags()) g.set_debug(true);
        NumericLocale nl;
        g.initialize();
      } catch (std::exception & x) {
        fail("initialize|inverse-transform", x.what());
      }
      if (g.is_initialized()) {
        auto check_pair = [&](double u1, double u2) {
          Fixed fx;
          fx.v = {u1, u2};
          double e1 = -1, e2 = -1;
          try {
            g.shoot_e1_e2(fx, e1, e2);
          } catch (std::exception & x) {
            // legitimate only if the deviate is above the last cumulative value (which must be exactly 1)
            fail("sample|exception", fmt("u=(%.17g,%.17g): %s", u1, u2, x.what()));
            return std::make_pair(-1.0, -1.0);
          }
          samples++;
          int i = -1;
          for (int k = 0; k < (int)c1.size(); k++)
            if (u1 <= c1[k]) { i = k; break; }
          if (i < 0) return std::make_pair(e1, e2);
          const std::vector<double> & c2 = arrays[1 + i];
          int j = -1;
          for (int k = 0; k < (int)c2.size(); k++)
            if (u2 <= c2[k]) { j = k; break; }
          if (j < 0) return std::make_pair(e1, e2);
          cells.insert(fmt("%d/%d", i, j));
          double lo1 = i ? E[i - 1] : 0.0, hi1 = E[i], lo2 = j ? E[j - 1] : 0.0, hi2 = E[j];
          if (!(e1 >= 0 && e2 >= 0)) fail("sample|negative", fmt("u=(%.17g,%.17g): e1=%.17g e2=%.17g", u1, u2, e1, e2));
          if (!(e1 >= lo1 - 1e-12 && e1 <= hi1 + 1e-12 && e2 >= lo2 - 1e-12 && e2 <= hi2 + 1e-12))
            fail("sample|outside-cell", fmt("u=(%.17g,%.17g) selects cell (%d,%d) = [%.9g,%.9g]x[%.9g,%.9g] but e1=%.12g e2=%.12g", u1, u2, i, j, lo1, hi1, lo2, hi2, e1, e2));
          if (!(e1 + e2 <= esum + 1e-12))
            fail("sample|sum-above-max", fmt("u=(%.17g,%.17g): e1+e2 = %.12g > dataset maximum %.12g (cell (%d,%d), E_min+E_max = %.12g)", u1, u2, e1 + e2, esum, i, j, emin + emax));
          return std::make_pair(e1, e2);
        };
        // lattice incl. cell boundaries and the tails
        std::vector<double> u1s = {1e-300, 1e-12, 0.5, 1 - 1e-12, 1 - 1e-16};
        for (size_t k = 0; k < c1.size(); k += std::max<size_t>(1, c1.size() / 24)) {
          u1s.push_back(c1[k]);
          u1s.push_back(std::nextafter(c1[k], 0.0));
          if (c1[k] < 1) u1s.push_back(std::nextafter(c1[k], 2.0));
        }
        for (size_t k = 0; k + 1 < c1.size(); k++)
          if (c1[k] == c1[k + 1] && c1[k] > 0 && c1[k] < 1 && (k == 0 || c1[k - 1] != c1[k])) {
            u1s.push_back(c1[k]);
            flat_runs++;
          }
        for (double u1 : u1s) {
          if (!(u1 > 0 && u1 <= 1)) continue;
          int i = -1;
          for (int k = 0; k < (int)c1.size(); k++)
            if (u1 <= c1[k]) { i = k; break; }
          std::vector<double> u2s = {1e-300, 1e-12, 0.5, 1 - 1e-12, 1 - 1e-16};
          if (i >= 0) {
            const std::vector<double> & c2 = arrays[1 + i];
            for (size_t k = 0; k < c2.size(); k += std::max<size_t>(1, c2.size() / 12)) {
              u2s.push_back(c2[k]);
              u2s.push_back(std::nextafter(c2[k], 0.0));
              if (c2[k] < 1) u2s.push_back(std::nextafter(c2[k], 2.0));
            }
            // every flat run (cells of zero probability): a deviate exactly on the repeated value belongs to the first of them
            for (size_t k = 0; k + 1 < c2.size(); k++)
              if (c2[k] == c2[k + 1] && c2[k] > 0 && c2[k] < 1 && (k == 0 || c2[k - 1] != c2[k])) {
                u2s.push_back(c2[k]);
                flat_runs++;
              }
          }
          for (double u2 : u2s)
            if (u2 > 0 && u2 <= 1) check_pair(u1, u2);
        }
        // random pairs + monotonicity in each deviate
        Rng r(seed, hash_str(lab));
        for (long k = 0; k < nrand; k++) {
          double u1 = r.uniform(), u2 = r.uniform();
          auto a = check_pair(u1, u2);
          double v1 = r.uniform();
          auto b = check_pair(v1, u2);
          if (a.first >= 0 && b.first >= 0 && ((u1 <= v1 && a.first > b.first + 1e-15) || (v1 <= u1 && b.first > a.first + 1e-15)))
            fail("sample|e1-not-monotone", fmt("u1 %.17g -> e1 %.17g but u1 %.17g -> e1 %.17g", u1, a.first, v1, b.first));
          double v2 = r.uniform();
          auto c = check_pair(u1, v2);
          if (a.first >= 0 && c.first >= 0 && ((u2 <= v2 && a.second > c.second + 1e-15) || (v2 <= u2 && c.second > a.second + 1e-15)))
            fail("sample|e2-not-monotone", fmt("u1 %.17g: u2 %.17g -> e2 %.17g but u2 %.17g -> e2 %.17g", u1, u2, a.second, v2, c.second));
        }
        // ---- (d) shoot() == shoot_e1_e2 + shoot_cos_theta replayed on the same tape
        for (long k = 0; k < std::max<long>(200, nrand / 20); k++) {
          Tape T(seed, (hash_str(lab) & 0xffffff) * 1024 + k);
          bxdecay0::event ev;
          g.shoot(T, ev);
          size_t d = T.pos;
          T.rewind();
          double e1, e2, c12;
          g.shoot_e1_e2(T, e1, e2);
          g.shoot_cos_theta(T, e1, e2, c12);
          events++;
          const auto & pp = ev.get_particles();
          if (pp.size() != 2 || !pp[0].is_electron() || !pp[1].is_electron()) {
            fail("event|shape", fmt("%zu particles", pp.size()));
            continue;
          }
          double k1 = ekin(pp[0]), k2 = ekin(pp[1]);
          double cosang = (pp[0].get_px() * pp[1].get_px() + pp[0].get_py() * pp[1].get_py() + pp[0].get_pz() * pp[1].get_pz()) / (pp[0].get_p() * pp[1].get_p());
          if (std::fabs(k1 - e1) > 1e-12 * (1 + e1) || std::fabs(k2 - e2) > 1e-12 * (1 + e2))
            fail("event|energies", fmt("event kinetic energies (%.15g,%.15g), sampler (%.15g,%.15g)", k1, k2, e1, e2));
          else if (std::fabs(cosang - c12) > 1e-9 && e1 > 1e-9 && e2 > 1e-9)
            fail("event|angle", fmt("event opening-angle cosine %.15g, sampler %.15g", cosang, c12));
          if (!(ev.get_time() == 0.0) || pp[0].get_time() != 0.0 || pp[1].get_time() != 0.0) fail("event|times", "non-zero times");
          if (d < 7 || d > 2000) fail("event|draws", fmt("%zu deviates for one event", d));
          if (sample.empty()) sample = "{\"tape\":" + T.prefix_json(std::min<size_t>(d, 8)) + ",\"e1\":" + jnum(e1) + ",\"e2\":" + jnum(e2) + ",\"cos12\":" + jnum(c12) + ",\"event\":" + event_json(ev) + "}";
        }
        // the same dataset on ONE long-lived sampler object that served every earlier dataset of this process (reset in between):
        // identical samples, bit for bit
        {
          static dbd_gA reused;
          std::string exc;
          try {
            if (reused.is_initialized()) reused.reset();
            reused.set_nuclide(nuc);
            reused.set_process(proc_of(proc));
            reused.set_shooting(dbd_gA::SHOOTING_INVERSE_TRANSFORM_METHOD);
            NumericLocale nl;
            reused.initialize();
            Rng r2(seed, hash_str(lab) + 5);
            for (int k = 0; k < 400 && exc.empty(); k++) {
              Fixed fa, fb;
              double u1 = r2.uniform(), u2 = r2.uniform();
              fa.v = {u1, u2};
              fb.v = {u1, u2};
              double a1 = -1, a2 = -1, b1 = -1, b2 = -1;
              g.shoot_e1_e2(fa, a1, a2);
              reused.shoot_e1_e2(fb, b1, b2);
              samples++;
              if (!same_bits(a1, b1) || !same_bits(a2, b2))
                fail("sample|reused-sampler-differs", fmt("u=(%.17g,%.17g): fresh sampler (%.17g,%.17g), sampler object used for other datasets before (%.17g,%.17g)", u1, u2, a1, a2, b1, b2));
            }
          } catch (std::exception & x) {
            exc = x.what();
            fail("initialize|reused-sampler", std::string("a sampler object used before raises where a fresh one does not: ") + exc);
          }
        }
        g.reset();
      }
      // ---- (e) rejection method
      if (has_pdf) {
        dbd_gA g2;
        try {
          g2.set_nuclide(nuc);
          g2.set_process(proc_of(proc));
          g2.set_shooting(dbd_gA::SHOOTING_REJECTION);
          if (verif_debug_flags()) g2.set_debug(true);
          NumericLocale nl;
          g2.initialize();
        } catch (std::exception & x) {
          fail("initialize|rejection", x.what());
        }
        if (g2.is_initialized()) {
          Tape T(seed, hash_str(lab) ^ 0x4e4e);
          T.cap = 20000000;
          const long nrej = std::max<long>(20000, nrand);
          for (long k = 0; k < nrej; k++) {
            double e1 = -1, e2 = -1;
            if (k % 2 == 1) {
              // every try draws (r1, r2, r3) and accepts when r3 * p_max < p(e1,e2): with r3 at 1e-12 every candidate of non-zero
              // interpolated density is accepted, so the accepted pairs sweep the whole support, its rim included
              T.reseed(seed, (hash_str(lab) ^ 0x4e4e) + (uint64_t)k);
              for (size_t c3 = 2; c3 < 300; c3 += 3) T.pin(c3, 1e-12);
            }
            try {
              g2.shoot_e1_e2(T, e1, e2);
            } catch (tape_exhausted &) {
              fail("rejection|unbounded", "rejection sampling did not terminate within 2e7 deviates");
              break;
            }
            samples++;
            if (!(e1 >= 0 && e2 >= 0 && e1 >= emin - 1e-12 && e2 >= emin - 1e-12 && e1 <= emax + 1e-12 && e2 <= emax + 1e-12))
              fail("rejection|outside-range", fmt("e1=%.12g e2=%.12g range [%.9g,%.9g]", e1, e2, emin, emax));
            if (!(e1 + e2 < esum + 1e-12)) fail("rejection|sum-above-max", fmt("e1+e2=%.12g > %.12g", e1 + e2, esum));
          }
          g2.reset();
        }
      }
    } else {
      fail("decode|shape", fmt("decoded %zu arrays for %d energy samples", arrays.size(), n));
    }
    fprintf(OUT, "{\"locale_switches\":%ld,", g_locale_switches);
    fprintf(OUT, "\"dataset\":%s,\"n\":%d,\"esum\":%s,\"emin\":%s,\"emax\":%s,\"samples\":%ld,\"events\":%ld,\"flat_runs\":%ld,\"cells\":%zu,\"sample\":%s,\"decoded\":%s,", jstr(lab).c_str(), n,
            jnum(esum).c_str(), jnum(emin).c_str(), jnum(emax).c_str(), samples, events, flat_runs, cells.size(), sample.empty() ? "null" : sample.c_str(), dump.c_str());
    emit_mismatches(OUT, "mismatches", mm);
    fprintf(OUT, "}\n");
    fflush(OUT);
  }
  return 0;
}
