// C13 oracle: render the event file the library API yields for a command line, using only the public API
// the way the README shows it (std::default_random_engine(seed) -> std_random -> decay0_generator; exponential
// event times from the same engine when an activity is given).
// usage: c13_expect <out.d0t> <category dbd|background> <nuclide> <seed> <nevents> <level> <mode> <emin|nan> <emax|nan> <activity|nan>
//                   <mdl 0|1> [<label> <rank> <phi> <theta> <aperture>]
// exit 0: rendered; exit 3: the library refuses the configuration (message on stdout)
#include <cmath>
#include <cstdlib>
#include <fstream>
#include <iostream>
#include <memory>
#include <random>

#include <bxdecay0/decay0_generator.h>
#include <bxdecay0/event.h>
#include <bxdecay0/mdl_event_op.h>
#include <bxdecay0/std_random.h>

int main(int argc, char ** argv)
{
  if (argc < 12) return 2;
  std::string out = argv[1], cat = argv[2], nuclide = argv[3];
  unsigned int seed = (unsigned int)strtoul(argv[4], 0, 10);
  long nev = atol(argv[5]);
  int level = atoi(argv[6]), mode = atoi(argv[7]);
  double emin = atof(argv[8]), emax = atof(argv[9]), activity = atof(argv[10]);
  bool mdl = atoi(argv[11]) != 0;
  try {
    std::default_random_engine generator(seed);
    // the oracle's own deviate source over the SAME engine object (the decay times are drawn from that engine too): what the documented
    // wrapper is specified to be, not the wrapper itself - a wrapper that worked on a copy of the engine would otherwise be on both sides
    struct EngineRef : public bxdecay0::i_random
    {
      explicit EngineRef(std::default_random_engine & g_) : g(g_), ud(0.0, 1.0) {}
      double operator()() override { return ud(g); }
      std::default_random_engine & g;
      std::uniform_real_distribution<double> ud;
    } prng(generator);
    bxdecay0::decay0_generator g;
    if (cat == "dbd") {
      g.set_decay_category(bxdecay0::decay0_generator::DECAY_CATEGORY_DBD);
      g.set_decay_isotope(nuclide);
      g.set_decay_dbd_level(level);
      g.set_decay_dbd_mode((bxdecay0::dbd_mode_type)mode);
      if (!std::isnan(emin) || !std::isnan(emax)) g.set_decay_dbd_esum_range(std::isnan(emin) ? 0.0 : emin, std::isnan(emax) ? 5000.0 : emax);
    } else {
      g.set_decay_category(bxdecay0::decay0_generator::DECAY_CATEGORY_BACKGROUND);
      g.set_decay_isotope(nuclide);
    }
    if (mdl) {
      if (argc < 17) return 2;
      auto op = std::make_shared<bxdecay0::momentum_direction_lock_event_op>();
      bxdecay0::momentum_direction_lock_event_op::config_type c;
      c.particle_label = argv[12];
      c.target_particle_rank = atoi(argv[13]);
      c.cone_phi_degree = atof(argv[14]);
      c.cone_theta_degree = atof(argv[15]);
      c.cone_aperture_degree = atof(argv[16]);
      op->set(c);
      g.add_operation(op);
    }
    g.initialize(prng);
    std::exponential_distribution<> timer(activity);
    std::ofstream f(out.c_str());
    f.precision(15);
    bxdecay0::event e;
    for (long i = 0; i < nev; i++) {
      g.shoot(prng, e);
      double t = 0.0;
      if (!std::isnan(activity)) t = timer(generator);
      e.set_time(t);
      f << i << ' ';
      e.store(f, bxdecay0::event::STORE_EVENT_TIME);
      f << '\n';
      e.reset();
    }
    f.close();
  } catch (std::exception & x) {
    std::cout << "REFUSED " << x.what() << std::endl;
    return 3;
  }
  return 0;
}
