// Transition-parameter monitor (C04 / C03 / C08 workloads).
// Every nuclear transition of every scheme goes through decay0_nucltransK / KL / KLM / KLM_Pb, which the library calls through the PLT.
// The definitions below take their place in the harness executable, check the arguments and forward to the real kernels.  A transition
// is executed far more often than its rarest sub-branch is taken: an internal-conversion coefficient attached to a shell whose
// binding energy exceeds the transition energy, or a pair coefficient on a transition below 2 m_e c^2, yields a negative kinetic
// energy (NaN momentum) only when that sub-branch is drawn (1e-6 of the events of one configuration in the seeded cases) - but the
// arguments say so the first time the transition is reached.
#ifndef VERIF_PARAMWATCH_H
#define VERIF_PARAMWATCH_H
#include <dlfcn.h>
#include <cmath>
#include <cstdio>
#include <cstdlib>
#include <map>
#include <string>

#include <bxdecay0/event.h>
#include <bxdecay0/i_random.h>

namespace verif {
  struct ParamWatch
  {
    std::string context;                       // label of the configuration being generated
    std::map<std::string, std::string> bad;    // key -> detail (first occurrence)
    long calls = 0;
    void check(const char * fn, double Eg, int nshell, const double * Eb, const double * cv, double cp)
    {
      calls++;
      char buf[400];
      if (!(Eg > 0) || !std::isfinite(Eg)) {
        snprintf(buf, sizeof buf, "%s: transition energy %.9g MeV", fn, Eg);
        bad.emplace(context + "|transition-parameters|energy", buf);
      }
      static const char shells[] = "KLM";
      for (int i = 0; i < nshell; i++) {
        if (!(cv[i] >= 0) || !std::isfinite(cv[i]) || !(Eb[i] >= 0)) {
          snprintf(buf, sizeof buf, "%s(E=%.6g MeV): %c-shell coefficient %.6g, binding energy %.6g MeV", fn, Eg, shells[i], cv[i], Eb[i]);
          bad.emplace(context + "|transition-parameters|coefficient", buf);
        } else if (cv[i] > 0 && !(Eg > Eb[i])) {
          snprintf(buf, sizeof buf, "%s: the %.6g MeV transition has a %c-conversion coefficient %.6g although the %c binding energy (%.6g MeV) is not below the transition energy: "
                                     "the conversion electron would get E = %.6g MeV",
                   fn, Eg, shells[i], cv[i], shells[i], Eb[i], Eg - Eb[i]);
          bad.emplace(context + fmt_key("|transition-parameters|conversion-below-binding|", Eg), buf);
        }
      }
      if (!(cp >= 0) || !std::isfinite(cp)) {
        snprintf(buf, sizeof buf, "%s(E=%.6g MeV): pair coefficient %.6g", fn, Eg, cp);
        bad.emplace(context + "|transition-parameters|coefficient", buf);
      } else if (cp > 0 && !(Eg > 1.022)) {
        snprintf(buf, sizeof buf, "%s: the %.6g MeV transition has a pair-conversion coefficient %.6g although it is below 1.022 MeV: the pair would get E = %.6g MeV", fn, Eg, cp, Eg - 1.022);
        bad.emplace(context + fmt_key("|transition-parameters|pair-below-threshold|", Eg), buf);
      }
    }
    static std::string fmt_key(const char * k, double Eg)
    {
      char b[64];
      snprintf(b, sizeof b, "%s%ldkeV", k, std::lround(Eg * 1000.0));
      return b;
    }
  };
  inline ParamWatch & param_watch()
  {
    static ParamWatch w;
    return w;
  }
}

namespace bxdecay0 {
  void decay0_nucltransK(i_random & prng_, event & event_, const double Egamma_, const double Ebinde_, const double conve_, const double convp_, const double tclev_, const double thlev_,
                         double & tdlev_)
  {
    typedef void (*fn_t)(i_random &, event &, double, double, double, double, double, double, double &);
    static fn_t real = (fn_t)dlsym(RTLD_NEXT, "_ZN8bxdecay017decay0_nucltransKERNS_8i_randomERNS_5eventEddddddRd");
    if (!real) abort();
    double eb[1] = {Ebinde_}, cv[1] = {conve_};
    verif::param_watch().check("nucltransK", Egamma_, 1, eb, cv, convp_);
    real(prng_, event_, Egamma_, Ebinde_, conve_, convp_, tclev_, thlev_, tdlev_);
  }
  void decay0_nucltransKL(i_random & prng_, event & event_, const double Egamma_, const double EbindeK_, const double conveK_, const double EbindeL_, const double conveL_,
                          const double convp_, const double tclev_, const double thlev_, double & tdlev_)
  {
    typedef void (*fn_t)(i_random &, event &, double, double, double, double, double, double, double, double, double &);
    static fn_t real = (fn_t)dlsym(RTLD_NEXT, "_ZN8bxdecay018decay0_nucltransKLERNS_8i_randomERNS_5eventEddddddddRd");
    if (!real) abort();
    double eb[2] = {EbindeK_, EbindeL_}, cv[2] = {conveK_, conveL_};
    verif::param_watch().check("nucltransKL", Egamma_, 2, eb, cv, convp_);
    real(prng_, event_, Egamma_, EbindeK_, conveK_, EbindeL_, conveL_, convp_, tclev_, thlev_, tdlev_);
  }
  void decay0_nucltransKLM(i_random & prng_, event & event_, const double Egamma_, const double EbindeK_, const double conveK_, const double EbindeL_, const double conveL_,
                           const double EbindeM_, const double conveM_, const double convp_, const double tclev_, const double thlev_, double & tdlev_)
  {
    typedef void (*fn_t)(i_random &, event &, double, double, double, double, double, double, double, double, double, double, double &);
    static fn_t real = (fn_t)dlsym(RTLD_NEXT, "_ZN8bxdecay019decay0_nucltransKLMERNS_8i_randomERNS_5eventEddddddddddRd");
    if (!real) abort();
    double eb[3] = {EbindeK_, EbindeL_, EbindeM_}, cv[3] = {conveK_, conveL_, conveM_};
    verif::param_watch().check("nucltransKLM", Egamma_, 3, eb, cv, convp_);
    real(prng_, event_, Egamma_, EbindeK_, conveK_, EbindeL_, conveL_, EbindeM_, conveM_, convp_, tclev_, thlev_, tdlev_);
  }
  void decay0_nucltransKLM_Pb(i_random & prng_, event & event_, const double Egamma_, const double EbindeK_, const double conveK_, const double EbindeL_, const double conveL_,
                              const double EbindeM_, const double conveM_, const double convp_, const double tclev_, const double thlev_, double & tdlev_)
  {
    typedef void (*fn_t)(i_random &, event &, double, double, double, double, double, double, double, double, double, double, double &);
    static fn_t real = (fn_t)dlsym(RTLD_NEXT, "_ZN8bxdecay022decay0_nucltransKLM_PbERNS_8i_randomERNS_5eventEddddddddddRd");
    if (!real) abort();
    double eb[3] = {EbindeK_, EbindeL_, EbindeM_}, cv[3] = {conveK_, conveL_, conveM_};
    verif::param_watch().check("nucltransKLM_Pb", Egamma_, 3, eb, cv, convp_);
    real(prng_, event_, Egamma_, EbindeK_, conveK_, EbindeL_, conveL_, EbindeM_, conveM_, convp_, tclev_, thlev_, tdlev_);
  }
}
#endif
