// Differential drivers (C01, C02): reference shims + shared bookkeeping.
#ifndef VERIF_DIFFCORE_H
#define VERIF_DIFFCORE_H
#include "refshim.h"
#include "diffcore_port.h"
#endif
