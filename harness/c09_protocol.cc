// C09: the configure/initialise/shoot/reset protocol against an executable model.
// Breadth-first exploration over MODEL states: every (state, operation) pair reached within the depth bound is
// executed on the real decay0_generator by replaying the shortest call sequence that reaches the state, and after
// every call the implementation is compared with the model (exception thrown <=> model says so, all getters).
// usage: c09_protocol <seed> <max_depth> <with_expensive 0|1> [probe shard] [probe shards] [alphabet 0|1] [truncated gA dir] [valid gA dir]
#include <cmath>
#include <cstdlib>
#include <deque>
#include <functional>
#include <limits>
#include <memory>
#include <set>
#include <sstream>

#include <bxdecay0/bb_utils.h>
#include <bxdecay0/decay0_generator.h>
#include <bxdecay0/mdl_event_op.h>
#include <bxdecay0/version.h>

#include "diffcore_port.h"

using namespace verif;
using bxdecay0::decay0_generator;

struct Model
{
  bool init = false;
  int cat = 0;            // 0 undef, 1 dbd, 2 background
  std::string iso;
  int level = -1;
  int mode = 0;
  bool has_min = false, has_max = false;
  double emin = 0, emax = 0;
  int nops = 0;
  int evcount = 0;
  bool version_set = false;
  int ga = 0; // gA data directory in the environment: 0 none, 1 truncated table, 2 valid (environment, not generator state: reset keeps it)
  int ga_failed = 0; // history marker, not observable state: bit k set once a gA initialisation failed on data kind k (kept across reset), so
                     // that the breadth-first search extends each of these histories instead of merging them into one model state
  int hist = 0; // history marker like ga_failed: bit 0 a gA initialisation succeeded earlier, bit 1 a non-gA one did, bit 2 a reset followed
                // an initialisation (kept across reset; never compared with the implementation)
  std::string key() const
  {
    return fmt("%d|%d|%s|%d|%d|%d%d|%g|%g|%d|%d|%d|%d|%d", init, cat, iso.c_str(), level, mode, has_min, has_max, emin, emax, nops, evcount, version_set, ga * 8 + ga_failed, hist);
  }
};

struct Op
{
  std::string name;
  // applies to the implementation; returns true if it threw
  std::function<bool(decay0_generator &, Tape &, bxdecay0::event &)> impl;
  // applies to the model; returns true if the model says "throws"
  std::function<bool(Model &)> model;
};

static bool window_capable(int m) { return m == 4 || m == 5 || m == 6 || m == 8 || m == 10 || m == 13 || m == 14 || m == 15 || m == 16 || m == 19; }

// validity of initialize() over the small alphabet (the general rule model lives in C06)
static bool init_valid(const Model & m)
{
  if (m.cat == 0 || m.iso.empty()) return false;
  if (m.cat == 2) return m.iso == "K40";
  // DBD
  if (!(m.mode >= 1 && m.mode <= 24)) return false;
  if (m.level < 0) return false;
  if (m.has_min && m.has_max && !(m.emin < m.emax)) return false; // a half-open window (one limit NaN) is a legal request
  if ((m.has_min || m.has_max) && !window_capable(m.mode)) return false;
  if (m.mode >= 21) return m.iso == "Mo100" && m.level == 0 && m.ga == 2; // gA: data readable and complete, ground state
  const double lo = std::max(m.has_min ? m.emin : 0.0, 0.0), hi = m.has_max ? m.emax : 1e9;
  if (m.iso == "Mo100") {
    if (m.mode == 1) return m.level == 0;
    if (m.mode == 3) return m.level == 0 || m.level == 1;
    if (m.mode == 5) return m.level == 0 && lo < std::min(hi, 3.034);
    return false;
  }
  if (m.iso == "Zn70") { // Q = 0.997 MeV, ground state only
    if (m.level != 0) return false;
    if (m.mode == 1 || m.mode == 3) return true;
    if (m.mode == 5) return lo < std::min(hi, 0.997);
    return false;
  }
  return false;
}

template <class F>
static bool throws(F f)
{
  try {
    f();
    return false;
  } catch (std::exception &) {
    return true;
  }
}

static std::string g_ga_dir[3]; // none / truncated / valid
static bool g_track_history = false; // gA alphabet: keep histories apart in the search (see Model::hist)

static std::vector<Op> alphabet(bool with_expensive, int which)
{
  std::vector<Op> ops;
  auto setter = [&](const std::string & n, std::function<void(decay0_generator &)> f, std::function<void(Model &)> g) {
    ops.push_back({n, [f](decay0_generator & G, Tape &, bxdecay0::event &) { return throws([&] { f(G); }); },
                   [g](Model & m) {
                     if (m.init) return true;
                     g(m);
                     return false;
                   }});
  };
  setter("set_decay_category(DBD)", [](decay0_generator & G) { G.set_decay_category(decay0_generator::DECAY_CATEGORY_DBD); }, [](Model & m) { m.cat = 1; });
  setter("set_decay_category(BACKGROUND)", [](decay0_generator & G) { G.set_decay_category(decay0_generator::DECAY_CATEGORY_BACKGROUND); }, [](Model & m) { m.cat = 2; });
  setter("set_decay_isotope(Mo100)", [](decay0_generator & G) { G.set_decay_isotope("Mo100"); }, [](Model & m) { m.iso = "Mo100"; });
  setter("set_decay_isotope(K40)", [](decay0_generator & G) { G.set_decay_isotope("K40"); }, [](Model & m) { m.iso = "K40"; });
  setter("set_decay_isotope(Xx99)", [](decay0_generator & G) { G.set_decay_isotope("Xx99"); }, [](Model & m) { m.iso = "Xx99"; });
  setter("set_decay_dbd_level(0)", [](decay0_generator & G) { G.set_decay_dbd_level(0); }, [](Model & m) { m.level = 0; });
  setter("set_decay_dbd_level(1)", [](decay0_generator & G) { G.set_decay_dbd_level(1); }, [](Model & m) { m.level = 1; });
  setter("set_decay_dbd_level(-1)", [](decay0_generator & G) { G.set_decay_dbd_level(-1); }, [](Model & m) { m.level = -1; });
  setter("set_decay_dbd_level(-2)", [](decay0_generator & G) { G.set_decay_dbd_level(-2); }, [](Model & m) { m.level = -2; }); // invalid, and not the 'unset' sentinel
  setter("set_decay_dbd_mode(1)", [](decay0_generator & G) { G.set_decay_dbd_mode(bxdecay0::DBDMODE_1); }, [](Model & m) { m.mode = 1; });
  setter("set_decay_dbd_mode(3)", [](decay0_generator & G) { G.set_decay_dbd_mode(bxdecay0::DBDMODE_3); }, [](Model & m) { m.mode = 3; });
  setter("set_decay_dbd_mode(21)", [](decay0_generator & G) { G.set_decay_dbd_mode(bxdecay0::DBDMODE_21); }, [](Model & m) { m.mode = 21; });
  setter("set_decay_dbd_mode(UNDEF)", [](decay0_generator & G) { G.set_decay_dbd_mode(bxdecay0::DBDMODE_UNDEF); }, [](Model & m) { m.mode = 0; });
  setter("set_decay_dbd_mode_by_label(0nubb_mn)", [](decay0_generator & G) { G.set_decay_dbd_mode_by_label("0nubb_mn"); }, [](Model & m) { m.mode = 1; });
  setter("set_decay_dbd_mode_by_label(nonsense)", [](decay0_generator & G) { G.set_decay_dbd_mode_by_label("nonsense"); }, [](Model & m) { m.mode = 0; });
  setter("set_decay_dbd_esum_range(0.25,0.75)", [](decay0_generator & G) { G.set_decay_dbd_esum_range(0.25, 0.75); },
         [](Model & m) { m.has_min = m.has_max = true; m.emin = 0.25; m.emax = 0.75; });
  setter("set_decay_dbd_esum_range(2,1)", [](decay0_generator & G) { G.set_decay_dbd_esum_range(2.0, 1.0); },
         [](Model & m) { m.has_min = m.has_max = true; m.emin = 2.0; m.emax = 1.0; });
  // half-open windows: one limit left undefined (NaN)
  setter("set_decay_dbd_esum_range(0.5,NaN)", [](decay0_generator & G) { G.set_decay_dbd_esum_range(0.5, std::numeric_limits<double>::quiet_NaN()); },
         [](Model & m) { m.has_min = true; m.has_max = false; m.emin = 0.5; m.emax = 0; });
  setter("set_decay_dbd_esum_range(NaN,0.75)", [](decay0_generator & G) { G.set_decay_dbd_esum_range(std::numeric_limits<double>::quiet_NaN(), 0.75); },
         [](Model & m) { m.has_min = false; m.has_max = true; m.emin = 0; m.emax = 0.75; });
  if (with_expensive) {
    setter("set_decay_isotope(Zn70)", [](decay0_generator & G) { G.set_decay_isotope("Zn70"); }, [](Model & m) { m.iso = "Zn70"; });
    setter("set_decay_dbd_mode(5)", [](decay0_generator & G) { G.set_decay_dbd_mode(bxdecay0::DBDMODE_5); }, [](Model & m) { m.mode = 5; });
  }
  ops.push_back({"add_operation(MDL)", [](decay0_generator & G, Tape &, bxdecay0::event &) {
                   return throws([&] {
                     auto op = std::make_shared<bxdecay0::momentum_direction_lock_event_op>();
                     op->set(bxdecay0::ELECTRON, 0, 0.0, 0.0, 1.0, 0.3, false);
                     G.add_operation(op);
                   });
                 },
                 [](Model & m) {
                   if (m.init) return true;
                   m.nops++;
                   return false;
                 }});
  ops.push_back({"add_operation(null)", [](decay0_generator & G, Tape &, bxdecay0::event &) { return throws([&] { G.add_operation(bxdecay0::event_op_ptr()); }); },
                 [](Model &) { return true; }});
  ops.push_back({"initialize", [](decay0_generator & G, Tape & t, bxdecay0::event &) { return throws([&] { G.initialize(t); }); },
                 [](Model & m) {
                   if (m.init) return true;
                   // the version string is filled in as soon as the request passes the configuration checks
                   bool reaches_init = m.cat != 0 && !m.iso.empty();
                   if (reaches_init && m.cat == 1) {
                     reaches_init = (m.mode >= 1 && m.mode <= 24) && m.level != -1 && !(m.has_min && m.has_max && !(m.emin < m.emax))
                                    && !((m.has_min || m.has_max) && !window_capable(m.mode));
                   }
                   if (reaches_init) m.version_set = true;
                   if (!init_valid(m)) {
                     if (reaches_init && m.mode >= 21 && m.iso == "Mo100" && m.level == 0 && m.ga != 2) m.ga_failed |= (1 << m.ga);
                     return true;
                   }
                   m.init = true;
                   if (g_track_history) m.hist |= (m.mode >= 21 ? 1 : 2);
                   return false;
                 }});
  ops.push_back({"shoot", [](decay0_generator & G, Tape & t, bxdecay0::event & e) { return throws([&] { G.shoot(t, e); }); },
                 [](Model & m) {
                   if (!m.init) return true;
                   m.evcount++;
                   return false;
                 }});
  ops.push_back({"reset", [](decay0_generator & G, Tape &, bxdecay0::event &) { return throws([&] { G.reset(); }); },
                 [](Model & m) {
                   int ga = m.ga, gf = m.ga_failed, h = m.hist;
                   if (m.init && g_track_history) h |= 4;
                   m = Model();
                   m.ga = ga;
                   m.ga_failed = gf;
                   m.hist = h;
                   return false;
                 }});
  if (which == 1) {
    // gA-focused alphabet: the data directory named by the environment is part of the history (none / a table cut after a few rows /
    // a complete one); a failed initialisation on the cut table must leave nothing behind in the generator
    static const char * keep[] = {"set_decay_category(DBD)", "set_decay_isotope(Mo100)", "set_decay_dbd_level(0)", "set_decay_dbd_level(1)", "set_decay_dbd_level(-2)", "set_decay_dbd_mode(1)",
                                  "set_decay_dbd_mode(21)", "initialize", "shoot", "reset"};
    std::vector<Op> sel;
    for (auto & o : ops)
      for (const char * k : keep)
        if (o.name == k) sel.push_back(o);
    ops.swap(sel);
    for (int k = 0; k < 3; k++) {
      static const char * nm[] = {"gA data: none", "gA data: truncated table", "gA data: complete table"};
      ops.push_back({nm[k], [k](decay0_generator &, Tape &, bxdecay0::event &) {
                       setenv("BXDECAY0_DBD_GA_DATA_DIR", g_ga_dir[k].c_str(), 1);
                       return false;
                     },
                     [k](Model & m) {
                       m.ga = k;
                       return false;
                     }});
    }
  }
  return ops;
}

static std::string getters_diff(const decay0_generator & G, const Model & m)
{
  std::string d;
  auto chk = [&](bool ok, const std::string & what) {
    if (!ok) d += what + "; ";
  };
  chk(G.is_initialized() == m.init, fmt("is_initialized=%d model %d", G.is_initialized(), m.init));
  chk((int)G.get_decay_category() == m.cat, fmt("category=%d model %d", (int)G.get_decay_category(), m.cat));
  chk(G.has_decay_category() == (m.cat != 0), "has_decay_category");
  chk(G.is_dbd() == (m.cat == 1) && G.is_background() == (m.cat == 2), "is_dbd/is_background");
  chk(G.get_decay_isotope() == m.iso, "isotope='" + G.get_decay_isotope() + "' model '" + m.iso + "'");
  chk(G.has_decay_isotope() == !m.iso.empty(), "has_decay_isotope");
  chk(G.get_decay_dbd_level() == m.level, fmt("level=%d model %d", G.get_decay_dbd_level(), m.level));
  chk(G.has_decay_dbd_level() == (m.level != -1), "has_decay_dbd_level");
  chk((int)G.get_decay_dbd_mode() == m.mode, fmt("mode=%d model %d", (int)G.get_decay_dbd_mode(), m.mode));
  chk(G.has_decay_dbd_mode() == (m.mode != 0), "has_decay_dbd_mode");
  chk(G.has_decay_dbd_esum_range() == (m.has_min && m.has_max), "has_decay_dbd_esum_range");
  if (m.has_min) chk(G.get_decay_dbd_esum_range_lower() == m.emin, "esum lower");
  else chk(std::isnan(G.get_decay_dbd_esum_range_lower()), "esum lower not NaN");
  if (m.has_max) chk(G.get_decay_dbd_esum_range_upper() == m.emax, "esum upper");
  else chk(std::isnan(G.get_decay_dbd_esum_range_upper()), "esum upper not NaN");
  chk((int)G.get_operations().size() == m.nops, fmt("operations=%zu model %d", G.get_operations().size(), m.nops));
  chk((int)G.get_event_count() == m.evcount, fmt("event_count=%zu model %d", G.get_event_count(), m.evcount));
  chk(G.has_decay_version() == m.version_set, fmt("has_decay_version=%d model %d", G.has_decay_version(), m.version_set));
  chk(G.has_next(), "has_next");
  if (!m.init) chk(G.get_to_all_events() == 1.0 || std::isnan(G.get_to_all_events()) || true, "");
  return d;
}

int main(int argc, char ** argv)
{
  uint64_t seed = argc > 1 ? strtoull(argv[1], 0, 10) : 1;
  int max_depth = argc > 2 ? atoi(argv[2]) : 5;
  bool with_exp = argc > 3 && atoi(argv[3]) != 0;
  // the behavioural reset probes (expensive: two initialisations each) are shared out over processes; every process walks the whole model
  const int pshard = argc > 4 ? atoi(argv[4]) : 0, pshards = argc > 5 ? atoi(argv[5]) : 1;
  long probes = 0;
  const int which = argc > 6 ? atoi(argv[6]) : 0;
  g_track_history = (which == 1);
  if (which == 1 && argc > 8) {
    g_ga_dir[0] = "/nonexistent/bxdecay0-gA-data";
    g_ga_dir[1] = argv[7];
    g_ga_dir[2] = argv[8];
  }
  std::vector<Op> ops = alphabet(with_exp, which);
  std::map<std::string, std::vector<int>> seq_of; // model state -> shortest op sequence
  std::deque<std::string> frontier;
  Model m0;
  seq_of[m0.key()] = {};
  frontier.push_back(m0.key());
  std::map<std::string, Model> state_of;
  state_of[m0.key()] = m0;
  long transitions = 0, traces = 0, calls = 0;
  std::map<std::string, Mismatch> mm;
  std::string sample;
  auto seq_str = [&](const std::vector<int> & s) {
    std::string o;
    for (size_t i = 0; i < s.size(); i++) o += (i ? " ; " : "") + ops[s[i]].name;
    return o;
  };
  auto fail = [&](const std::string & kind, const std::vector<int> & s, const std::string & detail) {
    std::string key = kind + "|" + ops[s.back()].name;
    Mismatch & x = mm[key];
    if (x.count++ == 0) { // BFS order: the first hit is a minimal sequence
      x.key = key;
      x.detail = "after [" + seq_str(s) + "]: " + detail;
    }
  };
  // ---- invalid-configuration grid (one process): an energy-sum window on a mode that cannot honour one must be refused whatever the
  // daughter level (at the ground state some of these requests die earlier on the spin rule, at a 2+ level the window gate is alone),
  // the refusal must leave the object un-initialised, and lifting the window must give what a fresh object gives
  long grid_cells = 0, grid_refused = 0;
  if (pshard == 0 && which == 0) {
    static const int WIN[] = {4, 5, 6, 8, 10, 13, 14, 15, 16, 19};
    static const struct { const char * iso; int level; } WHERE[] = {{"Mo100", 0}, {"Mo100", 1}, {"Mo100", 2}, {"Cd106", 0}, {"Cd106", 1}, {"Zr96", 0}};
    for (auto & w : WHERE)
      for (int mode = 1; mode <= 20; mode++) {
        bool capable = false;
        for (int x : WIN) capable = capable || x == mode;
        if (capable) continue;
        grid_cells++;
        decay0_generator G;
        std::string what;
        bool refused = throws([&] {
          G.set_decay_category(decay0_generator::DECAY_CATEGORY_DBD);
          G.set_decay_isotope(w.iso);
          G.set_decay_dbd_level(w.level);
          G.set_decay_dbd_mode((bxdecay0::dbd_mode_type)mode);
          G.set_decay_dbd_esum_range(0.25, 0.75);
          Tape t2(seed, 11);
          G.initialize(t2);
        });
        std::string cell = fmt("%s/L%d/m%d + window [0.25,0.75]", w.iso, w.level, mode);
        auto gfail = [&](const std::string & key, const std::string & detail) {
          Mismatch & x = mm[key];
          if (x.count++ == 0) {
            x.key = key;
            x.detail = detail;
          }
        };
        if (!refused) {
          gfail(fmt("invalid-configuration-accepted|window-on-mode-%d", mode), cell + ": initialize() accepts an energy-sum window on a mode that has no window support");
          continue;
        }
        grid_refused++;
        if (G.is_initialized()) gfail("initialized-after-failed-initialize|grid", cell + ": initialize() raised but is_initialized() is true");
        // lift the window on the same object / on a fresh one: alike
        decay0_generator F;
        std::string og, of;
        auto tryinit = [&](decay0_generator & X, bool configure, std::string & out) {
          return throws([&] {
            if (configure) {
              X.set_decay_category(decay0_generator::DECAY_CATEGORY_DBD);
              X.set_decay_isotope(w.iso);
              X.set_decay_dbd_level(w.level);
              X.set_decay_dbd_mode((bxdecay0::dbd_mode_type)mode);
            } else {
              X.set_decay_dbd_esum_range(std::numeric_limits<double>::quiet_NaN(), std::numeric_limits<double>::quiet_NaN());
            }
            Tape t3(seed, 12);
            X.initialize(t3);
            bxdecay0::event e3;
            X.shoot(t3, e3);
            out = fmt("draws=%zu ", t3.pos) + event_json(e3);
          });
        };
        bool tg = tryinit(G, false, og), tf = tryinit(F, true, of);
        if (tg != tf || og != of)
          gfail("unusable-after-failed-initialize|grid", cell + ": after the refusal, lifting the window gives " + (tg ? std::string("an exception") : og.substr(0, 100)) + "; a fresh object without window gives "
                                                           + (tf ? std::string("an exception") : of.substr(0, 100)));
      }
  }
  if (pshard == 0 && which == 0) {
    // the quadruple-beta mode exists between ground states only: an excited daughter level (0+ or 2+) must be refused
    for (const char * iso : {"Zr96", "Xe136", "Nd150"})
      for (int level = 1; level <= 9; level++) {
        grid_cells++;
        decay0_generator G;
        bool refused = throws([&] {
          G.set_decay_category(decay0_generator::DECAY_CATEGORY_DBD);
          G.set_decay_isotope(iso);
          G.set_decay_dbd_level(level);
          G.set_decay_dbd_mode(bxdecay0::DBDMODE_20);
          Tape t2(seed, 14);
          G.initialize(t2);
        });
        if (!refused || G.is_initialized()) {
          std::string key = "invalid-configuration-accepted|quadruple-beta-to-an-excited-level";
          Mismatch & x = mm[key];
          if (x.count++ == 0) {
            x.key = key;
            x.detail = fmt("initialize() accepts %s, level %d, mode 0nu4b", iso, level);
          }
        } else {
          grid_refused++;
        }
      }
  }
  if (pshard == 0 && which == 0) {
    // names that only contain a supported name (leading junk) are invalid configurations
    static const struct { const char * name; bool dbd; } JUNK[] = {{" Mo100", true}, {"xMo100", true}, {"A=100:Mo100", true}, {" K40", false}, {"xK40", false}, {"my_Bi214", false}, {"60Co60", false}};
    for (auto & j : JUNK) {
      grid_cells++;
      decay0_generator G;
      bool refused = throws([&] {
        G.set_decay_category(j.dbd ? decay0_generator::DECAY_CATEGORY_DBD : decay0_generator::DECAY_CATEGORY_BACKGROUND);
        G.set_decay_isotope(j.name);
        if (j.dbd) {
          G.set_decay_dbd_level(0);
          G.set_decay_dbd_mode(bxdecay0::DBDMODE_1);
        }
        Tape t2(seed, 13);
        G.initialize(t2);
      });
      if (!refused || G.is_initialized()) {
        std::string key = std::string("invalid-configuration-accepted|name-with-leading-junk");
        Mismatch & x = mm[key];
        if (x.count++ == 0) {
          x.key = key;
          x.detail = std::string("initialize() accepts the isotope name '") + j.name + "'";
        }
      } else {
        grid_refused++;
      }
    }
  }
  while (!frontier.empty()) {
    std::string sk = frontier.front();
    frontier.pop_front();
    std::vector<int> base = seq_of[sk];
    if ((int)base.size() >= max_depth) continue;
    for (size_t oi = 0; oi < ops.size(); oi++) {
      std::vector<int> s = base;
      s.push_back((int)oi);
      // replay on a fresh implementation object alongside a fresh model
      std::unique_ptr<decay0_generator> G(new decay0_generator);
      Model m;
      Tape t(seed, 90 + oi);
      bxdecay0::event ev;
      bool diverged = false;
      // every replay starts from the same environment.  ("none" is a directory that does not exist: the library keeps the last
      // directory it saw when the variable is removed, which is outside what the property speaks about)
      if (which == 1) setenv("BXDECAY0_DBD_GA_DATA_DIR", g_ga_dir[0].c_str(), 1);
      // every fifth trace runs with the debug switch on from the start (its chatter muted): is_debug() is a getter like the others -
      // it must stay on until reset() and be off after it, as on a new object
      const bool with_debug = (hash_str(seq_str(s)) % 5) == 0;
      struct Mute
      {
        std::streambuf * old = nullptr;
        std::ostringstream sink;
        explicit Mute(bool on) { if (on) old = std::cerr.rdbuf(sink.rdbuf()); }
        ~Mute() { if (old) std::cerr.rdbuf(old); }
      } mute(with_debug);
      bool debug_expected = with_debug;
      if (with_debug) G->set_debug(true);
      for (size_t k = 0; k < s.size(); k++) {
        if (ops[s[k]].name == "reset") debug_expected = false;
        Model before = m;
        bool mt = ops[s[k]].model(m);
        if (mt && ops[s[k]].name != "reset") {
          // a throwing call must leave the model unchanged, except what initialize is allowed to touch
          Model keep = m;
          m = before;
          m.version_set = keep.version_set;
          m.ga_failed = keep.ga_failed;
          m.hist = keep.hist;
        }
        bool it = ops[s[k]].impl(*G, t, ev);
        calls++;
        if (k + 1 < s.size()) continue; // the prefix was validated when it was the last step of a shorter trace
        if (it != mt) {
          fail(mt ? "should-throw" : "should-not-throw", s, fmt("%s %s, the model says it %s", ops[s[k]].name.c_str(), it ? "throws" : "returns",
                                                                mt ? "must throw" : "must succeed"));
          diverged = true;
        }
        std::string d = getters_diff(*G, it != mt ? before : m);
        if (!diverged && !d.empty()) {
          fail("getters", s, d);
          diverged = true;
        }
        if (!diverged && G->is_debug() != debug_expected) {
          fail(ops[s[k]].name == "reset" ? "reset-not-fresh" : "getters", s, fmt("is_debug() = %d, expected %d (switched on at construction%s)", G->is_debug(), debug_expected,
                                                                                 debug_expected ? "" : ", a reset() since"));
          diverged = true;
        }
        if (!diverged && ops[s[k]].name == "reset") {
          decay0_generator fresh;
          Model fm;
          std::string d2 = getters_diff(*G, fm);
          if (!d2.empty()) fail("reset-not-fresh", s, d2);
          if (!(G->get_to_all_events() == fresh.get_to_all_events())) fail("reset-not-fresh", s, "get_to_all_events differs from a fresh object");
          {
            // get_bb_params() is a getter too: the double-beta working data of a reset generator equal those of a new one
            const bxdecay0::bbpars & a = G->get_bb_params();
            const bxdecay0::bbpars & b = fresh.get_bb_params();
            long d1 = 0, d2 = 0;
            for (size_t i = 0; i < bxdecay0::bbpars::SPSIZE; i++) {
              if (!same_bits(a.spthe1[i], b.spthe1[i])) d1++;
              if (!same_bits(a.spthe2[i], b.spthe2[i])) d2++;
            }
            std::ostringstream da, db;
            a.dump(da, "");
            b.dump(db, "");
            if (d1 || d2 || da.str() != db.str())
              fail("reset-not-fresh", s, fmt("get_bb_params() of the reset object differs from a new one: spthe1 in %ld bins, spthe2 in %ld bins, scalar members %s", d1, d2, da.str() == db.str() ? "equal" : "differ"));
          }
          if ((before.has_min || before.has_max || before.nops || before.init) && (int)(hash_str(before.key()) % (uint64_t)pshards) == pshard) {
            probes++;
            // behavioural freshness, not through the getters: the same partial configuration (no window, no operation) applied to
            // the reset object and to a fresh one must initialise alike and give the same ratio and the same first event
            auto probe = [&](decay0_generator & X, std::string & out) {
              return throws([&] {
                X.set_decay_category(decay0_generator::DECAY_CATEGORY_DBD);
                X.set_decay_isotope("Zn70");
                X.set_decay_dbd_level(0);
                X.set_decay_dbd_mode(bxdecay0::DBDMODE_5);
                Tape t2(seed, 6);
                X.initialize(t2);
                bxdecay0::event e2;
                X.shoot(t2, e2);
                out = fmt("toallevents=%.17g draws=%zu ", X.get_to_all_events(), t2.pos) + event_json(e2);
              });
            };
            std::string og, of;
            bool tg = probe(*G, og), tf = probe(fresh, of);
            if (tg != tf || og != of)
              fail("reset-not-fresh", s, "after reset, configuring Zn70/0/mode 5 without a window gives " + (tg ? std::string("an exception") : og.substr(0, 120)) + "; a fresh object gives "
                                           + (tf ? std::string("an exception") : of.substr(0, 120)));
          }
        }
        if (!diverged && ops[s[k]].name == "initialize" && it && !before.init) {
          // a failed initialisation must leave the object usable: a corrected configuration initialises -
          // first by just correcting the settings (no reset in between), then after reset()
          bool bad0 = throws([&] {
            G->set_decay_category(decay0_generator::DECAY_CATEGORY_DBD);
            G->set_decay_isotope("Mo100");
            G->set_decay_dbd_level(0);
            G->set_decay_dbd_mode(bxdecay0::DBDMODE_1);
            G->set_decay_dbd_esum_range(std::numeric_limits<double>::quiet_NaN(), std::numeric_limits<double>::quiet_NaN());
            Tape t2(seed, 5);
            G->initialize(t2);
            bxdecay0::event e2;
            G->shoot(t2, e2);
          });
          if (bad0) fail("unusable-after-failed-initialize", s, "after the failed initialize, correcting the settings to Mo100/0/mode 1 (no reset) does not give an initialisable generator");
          G->reset();
          bool bad = throws([&] {
            G->set_decay_category(decay0_generator::DECAY_CATEGORY_DBD);
            G->set_decay_isotope("Mo100");
            G->set_decay_dbd_level(0);
            G->set_decay_dbd_mode(bxdecay0::DBDMODE_1);
            Tape t2(seed, 5);
            G->initialize(t2);
            bxdecay0::event e2;
            G->shoot(t2, e2);
          });
          if (bad) fail("unusable-after-failed-initialize", s, "after the failed initialize, reset() + a valid Mo100/0/mode 1 configuration cannot be initialised and shot");
        }
        if (!diverged && ops[s[k]].name == "initialize" && !it && !mt && (int)(hash_str(before.key()) % (uint64_t)pshards) == pshard) {
          // whatever the history (failed initialisations, resets, other settings before), the generator now behaves like a fresh
          // instance given the same settings: same full/window ratio and bit-identical events from identical tapes
          probes++;
          decay0_generator F;
          std::string how;
          bool fthrows = throws([&] {
            F.set_decay_category(m.cat == 1 ? decay0_generator::DECAY_CATEGORY_DBD : decay0_generator::DECAY_CATEGORY_BACKGROUND);
            F.set_decay_isotope(m.iso);
            if (m.cat == 1) {
              if (m.level != -1) F.set_decay_dbd_level(m.level);
              F.set_decay_dbd_mode((bxdecay0::dbd_mode_type)m.mode);
              if (m.has_min || m.has_max)
                F.set_decay_dbd_esum_range(m.has_min ? m.emin : std::numeric_limits<double>::quiet_NaN(), m.has_max ? m.emax : std::numeric_limits<double>::quiet_NaN());
            }
            for (int i = 0; i < m.nops; i++) {
              auto op = std::make_shared<bxdecay0::momentum_direction_lock_event_op>();
              op->set(bxdecay0::ELECTRON, 0, 0.0, 0.0, 1.0, 0.3, false);
              F.add_operation(op);
            }
            Tape t3(seed, 4);
            F.initialize(t3);
          });
          if (fthrows) {
            fail("differs-from-fresh-instance", s, "a fresh instance with the same settings does not initialise");
          } else {
            if (!(G->get_to_all_events() == F.get_to_all_events())) how += fmt("toallevents %.17g vs fresh %.17g; ", G->get_to_all_events(), F.get_to_all_events());
            for (int i = 0; i < 3 && how.empty(); i++) {
              Tape ta(seed, 700 + i), tb(seed, 700 + i);
              bxdecay0::event ea, eb;
              bool xa = throws([&] { G->shoot(ta, ea); }), xb = throws([&] { F.shoot(tb, eb); });
              if (xa != xb || ta.pos != tb.pos || !events_bit_identical(ea, eb, false))
                how += fmt("event %d from the same tape differs (draws %zu vs %zu): ", i, ta.pos, tb.pos) + event_json(ea).substr(0, 200) + " vs fresh " + event_json(eb).substr(0, 200);
            }
            if (!how.empty()) fail("differs-from-fresh-instance", s, how);
          }
        }
        if (!diverged && ops[s[k]].name == "shoot" && !it) {
          if (ev.get_particles().empty()) fail("empty-event", s, "shoot returned an empty event");
        }
      }
      transitions++;
      traces++;
      if (sample.empty() && s.size() == 4) sample = seq_str(s);
      if (diverged) continue;
      std::string nk = m.key();
      if (m.evcount > 2) continue; // cap the unbounded counter dimension
      if (!seq_of.count(nk)) {
        seq_of[nk] = s;
        state_of[nk] = m;
        frontier.push_back(nk);
      }
    }
  }
  fprintf(OUT, "{\"grid_cells\":%ld,\"grid_refused\":%ld,", grid_cells, grid_refused);
  fprintf(OUT, "\"states\":%zu,\"transitions\":%ld,\"traces\":%ld,\"calls\":%ld,\"alphabet\":%zu,\"max_depth\":%d,\"reset_probes\":%ld,\"sample\":%s,", seq_of.size(), transitions, traces, calls,
          ops.size(), max_depth, probes, jstr(sample).c_str());
  emit_mismatches(OUT, "mismatches", mm);
  fprintf(OUT, "}\n");
  return 0;
}
