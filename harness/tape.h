// Deviate tape: a replayable bxdecay0::i_random (DESIGN.md 1.2).
//  - cells filled lazily from SplitMix64(seed, stream), always inside (0,1)
//  - single cells can be pinned (steering)
//  - position counter = logical clock
//  - draw cap: throws tape_exhausted (cuts runaway rejection loops, tape is the witness)
#ifndef VERIF_TAPE_H
#define VERIF_TAPE_H

#include <cstdint>
#include <cstdio>
#include <map>
#include <stdexcept>
#include <string>
#include <vector>

#include <bxdecay0/i_random.h>

namespace verif {

  inline uint64_t splitmix64(uint64_t x)
  {
    x += 0x9E3779B97F4A7C15ULL;
    uint64_t z = x;
    z = (z ^ (z >> 30)) * 0xBF58476D1CE4E5B9ULL;
    z = (z ^ (z >> 27)) * 0x94D049BB133111EBULL;
    return z ^ (z >> 31);
  }

  // Same stream as vlib.common.Rng
  struct Rng
  {
    uint64_t state;
    explicit Rng(uint64_t seed = 1, uint64_t stream = 0) { reseed(seed, stream); }
    void reseed(uint64_t seed, uint64_t stream) { state = splitmix64(seed ^ splitmix64(stream)); }
    uint64_t u64()
    {
      state += 0x9E3779B97F4A7C15ULL;
      uint64_t z = state;
      z = (z ^ (z >> 30)) * 0xBF58476D1CE4E5B9ULL;
      z = (z ^ (z >> 27)) * 0x94D049BB133111EBULL;
      return z ^ (z >> 31);
    }
    double uniform() { return ((double)(u64() >> 11) + 0.5) / 9007199254740992.0; }
    uint64_t below(uint64_t n) { return u64() % n; }
    int randint(int lo, int hi) { return lo + (int)(u64() % (uint64_t)(hi - lo + 1)); }
  };

  struct tape_exhausted : public std::runtime_error
  {
    tape_exhausted() : std::runtime_error("verif: deviate tape draw cap reached") {}
  };

  struct Tape : public bxdecay0::i_random
  {
    std::vector<double> cells;
    std::map<size_t, double> pins;
    size_t pos = 0;
    size_t cap = 2000000;
    uint64_t total = 0; // draws over the life of the object
    Rng gen;
    uint64_t seed_ = 1, stream_ = 0;

    Tape() {}
    Tape(uint64_t seed, uint64_t stream) { reseed(seed, stream); }

    void reseed(uint64_t seed, uint64_t stream)
    {
      seed_ = seed;
      stream_ = stream;
      gen.reseed(seed, stream);
      cells.clear();
      pins.clear();
      pos = 0;
    }
    void rewind() { pos = 0; }
    void seek(size_t p) { pos = p; }
    void pin(size_t k, double v)
    {
      pins[k] = v;
      if (k < cells.size()) cells[k] = v;
    }
    void unpin_all()
    {
      // regenerate (cheap) so that unpinned cells return to their seeded values
      uint64_t s = seed_, t = stream_;
      reseed(s, t);
    }
    double peek(size_t k)
    {
      fill(k + 1);
      return cells[k];
    }
    void fill(size_t n)
    {
      while (cells.size() < n) {
        size_t k = cells.size();
        double v = gen.uniform();
        auto it = pins.find(k);
        cells.push_back(it == pins.end() ? v : it->second);
      }
    }
    double operator()() override
    {
      if (pos >= cap) throw tape_exhausted();
      if (pos >= cells.size()) fill(pos + 64);
      ++total;
      return cells[pos++];
    }
    // explicit content (replay)
    void load(const std::vector<double> & v)
    {
      cells = v;
      pos = 0;
    }
    std::string prefix_json(size_t n)
    {
      fill(n);
      std::string s = "[";
      char buf[40];
      for (size_t i = 0; i < n; i++) {
        snprintf(buf, sizeof buf, "%s%.17g", i ? "," : "", cells[i]);
        s += buf;
      }
      return s + "]";
    }
  };

} // namespace verif

#endif
