// C02 (and the ier side of C06): double-beta configurations, port vs Decay0 reference.
// usage: c02_diff <specfile> <seed> <n_iid> <n_grid> <port_fermi 0|1> <shard> <nshards>
//   spec lines: name level mode ebb1 ebb2 use_window(0|1) [7 NMEs]
// Output: one JSON line per configuration.
#include <cstdlib>
#include <fstream>
#include <set>
#include <sstream>

#include <bxdecay0/bb.h>
#include <bxdecay0/bb_utils.h>
#include <bxdecay0/decay0_generator.h>
#include <bxdecay0/event.h>
#include <bxdecay0/genbbsub.h>

#include "diffcore.h"
#include "steer.h"

using namespace verif;

struct Config
{
  std::string name;
  int level = 0, mode = 1;
  double e1 = 0, e2 = 4.3;
  bool window = false;
  double nme[7] = {1, 1, 1, 1, 1, 1, 1};
  std::vector<double> thr; // branching thresholds of the daughter's de-excitation scheme (steering hints)
  std::string label() const
  {
    return "dbd/" + name + "/L" + std::to_string(level) + "/m" + std::to_string(mode) + (window ? fmt("/w%.6g-%.6g", e1, e2) : "");
  }
};

static void run_config(const Config & c, uint64_t seed, long n_iid, int n_grid)
{
  Stats st;
  DeepSteerStats ds;
  std::string lab = c.label();
  st.name = lab;
  Tape tape;
  ref_state().tape = &tape;
  tape.reseed(seed, hash_str(lab) & 0xffffff);
  auto record = [&](std::map<std::string, Mismatch> & m, const std::string & key, const std::string & detail) {
    Mismatch & x = m[key];
    if (x.count++ == 0) {
      x.key = key;
      x.detail = detail;
    }
  };
  // ---- initialisation on both sides
  vf_initpar_();
  double e1 = c.e1, e2 = c.e2;
  vf_setenrange_(&e1, &e2);
  double nme[7];
  for (int i = 0; i < 7; i++) nme[i] = c.nme[i];
  vf_seteta_(nme);
  int rier = 0;
  tape.rewind();
  ref_state().clamp_acted = 0;
  bool ref_ok = ref_genbbsub(1, c.name, c.level, c.mode, -1, rier);
  const long clamp_acted_at_init = ref_state().clamp_acted; // sub-50-eV arguments while the reference built its tables
  size_t rd0 = tape.pos;
  double re1, re2, rtoall;
  int rlevelE;
  vf_getenrange_(&re1, &re2, &rtoall, &rlevelE);

  // Half of the shards run every configuration on ONE bbpars object that is never reset between configurations - as the reference
  // does with its common blocks, and as a user of the plumbing API (genbbsub) may: whatever an earlier, larger configuration left in
  // the tables must not show through.  The other half uses a fresh object per configuration.
  static bxdecay0::bbpars shared_pars;
  bxdecay0::bbpars fresh_pars;
  bxdecay0::bbpars & pars = getenv("VERIF_C02_SHARED_PARS") ? shared_pars : fresh_pars;
  pars.toallevents = 1.0; // exactly what the accessor does to the reference before every configuration (vf_setenrange)
  pars.ebb1 = c.e1;
  pars.ebb2 = c.e2;
  pars.chi_GTw = nme[0]; pars.chi_Fw = nme[1]; pars.chip_GT = nme[2]; pars.chip_F = nme[3];
  pars.chip_T = nme[4]; pars.chip_P = nme[5]; pars.chip_R = nme[6];
  int pier = 0;
  bxdecay0::event ev0;
  tape.rewind();
  std::string pexc;
  try {
    bxdecay0::genbbsub(tape, ev0, bxdecay0::GENBBSUB_I2BBS_DBD, c.name, c.level, c.mode, bxdecay0::GENBBSUB_ISTART_INIT, pier, pars);
  } catch (std::exception & x) {
    pexc = x.what();
    pier = -99;
  }
  size_t pd0 = tape.pos;
  bool accepted_ref = ref_ok && rier == 0;
  bool accepted_port = pier == 0;
  fprintf(OUT, "{\"config\":%s,\"name\":%s,\"level\":%d,\"mode\":%d,\"window\":%s,\"ref_ier\":%d,\"port_ier\":%d,\"nme\":[%.17g,%.17g,%.17g,%.17g,%.17g,%.17g,%.17g],", jstr(lab).c_str(), jstr(c.name).c_str(),
          c.level, c.mode, c.window ? "true" : "false", ref_ok ? rier : -98, pier, c.nme[0], c.nme[1], c.nme[2], c.nme[3], c.nme[4], c.nme[5], c.nme[6]);
  if (accepted_ref != accepted_port) {
    record(st.mm, lab + "|ier", fmt("reference ier=%d, port ier=%d %s", ref_ok ? rier : -98, pier, pexc.c_str()));
  }
  if (accepted_ref && accepted_port) {
    if (rd0 != pd0) record(st.mm, lab + "|init-draws", fmt("initialisation consumed %zu (reference) vs %zu (port) deviates", rd0, pd0));
    if (std::fabs(rtoall - pars.toallevents) > 1e-9 * std::fabs(rtoall)) {
      // root-cause probe: the reference's integrands clamp energies below 50 eV *in place* (recorded finding);
      // if the ratio agrees once that side effect is switched off in the shim, this is the same root cause
      bool same_without_clamp = false;
      if (ref_state().port_fermi) {
        ref_state().inplace_clamp = false;
        double a1 = c.e1, a2 = c.e2, r1, r2, rt;
        int lv, ier2 = 0;
        vf_setenrange_(&a1, &a2);
        tape.rewind();
        if (ref_genbbsub(1, c.name, c.level, c.mode, -1, ier2) && ier2 == 0) {
          vf_getenrange_(&r1, &r2, &rt, &lv);
          same_without_clamp = std::fabs(rt - pars.toallevents) <= 1e-9 * std::fabs(rt);
        }
        ref_state().inplace_clamp = true;
        a1 = c.e1; a2 = c.e2;
        vf_setenrange_(&a1, &a2);
        tape.rewind();
        ref_genbbsub(1, c.name, c.level, c.mode, -1, ier2); // back to the faithful reference state
      }
      if (same_without_clamp)
        record(st.mm, "dbd|lepton-below-50eV-clamped-in-reference", lab + fmt(": toallevents reference %.12g, port %.12g (equal once the in-place clamp is disabled)", rtoall, pars.toallevents));
      else
        record(st.mm, lab + "|toallevents", fmt("toallevents reference %.12g, port %.12g", rtoall, pars.toallevents));
    }
    if (std::fabs(re1 - pars.ebb1) > 1e-12 || std::fabs(re2 - pars.ebb2) > 1e-12)
      record(st.mm, lab + "|range", fmt("clamped range reference [%.12g,%.12g], port [%.12g,%.12g]", re1, re2, pars.ebb1, pars.ebb2));
    if (rlevelE != pars.levelE) record(st.mm, lab + "|levelE", fmt("levelE reference %d, port %d", rlevelE, pars.levelE));
    if (c.mode != 20 && c.mode != 9 && c.mode != 11 && c.mode != 12) {
      // the pre-computed 1-keV spectrum of the first lepton, bin by bin (the reference's table is read through a named common block);
      // modes 9, 11, 12 and 20 do not compute it (both sides keep whatever an earlier configuration left there)
      static double rtab[4300];
      double rmax = 0;
      auto cmp = [&](int & nbad, int & worst, double & worst_rel) {
        vf_getspthe1_(rtab, &rmax);
        nbad = 0;
        worst = -1;
        worst_rel = 0;
        for (int i = 0; i < 4300; i++) {
          double a = rtab[i], b = pars.spthe1[i];
          double d = std::fabs(a - b), n = std::max(std::fabs(a), std::fabs(b));
          if (d > 1e-9 * n && d > 1e-290) {
            nbad++;
            if (d / n > worst_rel) { worst_rel = d / n; worst = i; }
          }
        }
        if (std::fabs(rmax - pars.spmax) > 1e-9 * std::fabs(rmax) && worst < 0) { nbad++; worst = 4300; worst_rel = std::fabs(rmax - pars.spmax) / std::fabs(rmax); }
      };
      int nbad, worst;
      double wrel;
      cmp(nbad, worst, wrel);
      st.table_bins += 4300;
      if (nbad > 0) {
        std::string what = worst < 4300 ? fmt("%d bins differ; worst: bin %d (e1 = %.3f MeV) reference %.12g port %.12g (relative %.2e)", nbad, worst + 1, (worst + 1) / 1000.0, rtab[worst],
                                               pars.spthe1[worst], wrel)
                                        : fmt("spmax reference %.12g port %.12g", rmax, pars.spmax);
        bool same_without_clamp = false;
        if (ref_state().port_fermi) {
          ref_state().inplace_clamp = false;
          double a1 = c.e1, a2 = c.e2;
          int ier2 = 0;
          vf_setenrange_(&a1, &a2);
          tape.rewind();
          if (ref_genbbsub(1, c.name, c.level, c.mode, -1, ier2) && ier2 == 0) {
            int nb2, w2;
            double r2;
            cmp(nb2, w2, r2);
            same_without_clamp = nb2 == 0;
          }
          ref_state().inplace_clamp = true;
          a1 = c.e1; a2 = c.e2;
          vf_setenrange_(&a1, &a2);
          tape.rewind();
          ref_genbbsub(1, c.name, c.level, c.mode, -1, ier2); // back to the faithful reference state
        }
        if (same_without_clamp) record(st.mm, "dbd|lepton-below-50eV-clamped-in-reference", lab + ": spectrum table: " + what + " (equal once the in-place clamp is disabled)");
        else record(st.mm, lab + "|spectrum-table", what);
      }
    }
    {
      // the process parameters both sides hand to their spectrum and angular-correlation functions (common/helpbb/ vs bbpars)
      double rz = 0, ra = 0, re0 = 0;
      vf_gethelpbb_(&rz, &ra, &re0);
      if (rz != pars.Zd || ra != pars.Ad || std::fabs(re0 - pars.e0) > 1e-12)
        record(st.mm, "dbd/" + c.name + "|process-parameters", lab + fmt(": (Zd, Ad, e0) reference (%g, %g, %.12g), port (%g, %g, %.12g)", rz, ra, re0, pars.Zd, pars.Ad, pars.e0));
    }
    // porcelain instance of the same configuration
    bxdecay0::decay0_generator gen;
    bool gen_ok = true;
    try {
      gen.set_decay_category(bxdecay0::decay0_generator::DECAY_CATEGORY_DBD);
      gen.set_decay_isotope(c.name);
      gen.set_decay_dbd_level(c.level);
      gen.set_decay_dbd_mode((bxdecay0::dbd_mode_type)c.mode);
      if (c.window) gen.set_decay_dbd_esum_range(c.e1, c.e2);
      Tape t2(seed, 99);
      gen.initialize(t2);
      if (c.mode == 18) gen_ok = false; // NMEs cannot be set through the porcelain API
    } catch (std::exception & x) {
      gen_ok = false;
      record(st.mm, lab + "|porcelain-init", std::string("decay0_generator refuses a configuration genbbsub accepts: ") + x.what());
    }
    double emax = pars.Qbb + 0.01;
    bool chain = (c.name == "Bi214" || c.name == "Pb214" || c.name == "Po218" || c.name == "Rn222");
    if (chain) emax = 12.0;
    uint64_t stream = (hash_str(lab) & 0xffffff) << 24;
    uint64_t last_sig = 0;
    size_t last_draws = 0;
    int probes = 0, probe_confirmed = 0, probe_refuted = 0;
    long unprobed_attributed = 0;
    auto one = [&](const std::string & steer) {
      last_sig = 0;
      last_draws = 0;
      RefEvent re;
      bxdecay0::event pe, pe2;
      tape.rewind();
      vf_clearevent_();
      int ier = 0;
      ref_state().clamp_acted = 0;
      bool rok = ref_genbbsub(1, c.name, c.level, c.mode, 1, ier);
      const long clamp_acted = ref_state().clamp_acted; // sub-50-eV arguments the reference's fermi() saw while making this event
      size_t rd = tape.pos;
      re.fetch();
      tape.rewind();
      int perr = 0;
      bool pok = true;
      std::string exc;
      try {
        bxdecay0::genbbsub(tape, pe, bxdecay0::GENBBSUB_I2BBS_DBD, c.name, c.level, c.mode, bxdecay0::GENBBSUB_ISTART_GENERATE, perr, pars);
      } catch (tape_exhausted &) {
        pok = false;
        exc = "cap";
      } catch (std::exception & x) {
        pok = false;
        exc = x.what();
      }
      size_t pd = tape.pos;
      last_draws = pd;
      st.events++;
      if (pd > st.max_draws) st.max_draws = pd;
      st.draws_hist.push_back(pd);
      auto rec = [&](std::map<std::string, Mismatch> & m, const std::string & key, const std::string & detail) {
        Mismatch & x = m[key];
        if (x.count++ == 0) {
          x.key = key;
          x.detail = detail;
          x.tape = tape.prefix_json(std::min<size_t>(std::max(rd, pd), 60));
          x.ref = re.json();
          x.port = event_json(pe);
          x.steer = steer;
        }
      };
      if (!rok || !pok) {
        st.cap_hits++;
        if (rok != pok || exc != "cap") rec(st.mm, lab + "|abort", fmt("reference %s, port %s", rok ? "finished" : "cut by cap", pok ? "finished" : exc.c_str()));
        if (!pok) rec(st.wf, lab + "|" + (exc == "cap" ? "unbounded-draws" : "exception"), "port: " + exc);
        return;
      }
      CmpResult cr = compare_events(re, pe, rd, pd, false);
      if (!cr.same) {
        // root-cause classification: the reference's fermi() clamps its energy argument in place
        // (if(E.lt.50.e-6) E=50.e-6), and bb passes the sampled e2 by reference through fe2_modN, so a second
        // lepton sampled below 50 eV leaves the reference with exactly 50 eV; the port keeps the sampled value.
        bool clamp = false;
        // signature of that root cause: two leading leptons, the first with the same |p| on both sides, the second
        // with exactly 50 eV in the reference and less in the port (directions and later draws may then differ,
        // because the angular-correlation rejection sees a different beta2)
        if (re.np >= 2 && pe.get_particles().size() >= 2 && (re.code[0] == 2 || re.code[0] == 3) && re.code[1] == re.code[0]) {
          const auto & q0 = pe.get_particles()[0];
          const auto & q1 = pe.get_particles()[1];
          double pr0 = std::sqrt(re.p[0][0] * re.p[0][0] + re.p[0][1] * re.p[0][1] + re.p[0][2] * re.p[0][2]);
          if ((int)q0.get_code() == re.code[0] && (int)q1.get_code() == re.code[1] && std::fabs(pr0 - q0.get_p()) <= 1e-9 * pr0
              && ekin(q1) < 50.e-6 && std::fabs(re.ekin(1) - 50.e-6) < 1e-12)
            clamp = true;
        }
        if (!clamp && ref_state().port_fermi && (clamp_acted > 0 || clamp_acted_at_init > 0)) {
          // root-cause probe: the same in-place clamp also acts inside the rejection loops (fe1_modN / fe2_modN see 50 eV instead of
          // the sampled sub-50-eV energy after their first fermi() call), so a deviate steered exactly onto an accept/reject boundary
          // can flip the decision.  Replay the reference on the same tape with the side effect switched off in the shim: if it then
          // agrees with the port, this is that recorded root cause and nothing else.
          // (the spectrum tables of the rejection loops are built at initialisation, so the reference is re-initialised too)
          auto reinit = [&]() {
            double a1 = c.e1, a2 = c.e2;
            int ierx = 0;
            vf_setenrange_(&a1, &a2);
            Tape t0;
            t0.reseed(seed, hash_str(lab) & 0xffffff);
            ref_state().tape = &t0;
            ref_genbbsub(1, c.name, c.level, c.mode, -1, ierx);
            ref_state().tape = &tape;
          };
          bool rok2 = false;
          int ier2 = 0;
          size_t rd2 = 0;
          RefEvent re2;
          // (two re-initialisations of the reference per probe: many for the modes whose tables are cheap - the pass of the deep steering
          // that is guided by the number of deviates lands on hundreds of such boundaries per configuration - few for the quadrature modes)
          const bool cheap_tables = !(c.mode == 4 || c.mode == 5 || c.mode == 6 || c.mode == 8 || c.mode == 13 || c.mode == 14 || c.mode == 15 || c.mode == 16 || c.mode == 19);
          const int cap = cheap_tables ? 800 : 40;
          if (probes >= cap && probe_confirmed >= cap && probe_refuted == 0) {
            // budget spent, every one of the probes of this configuration confirmed the recorded root cause and none refuted it, and the
            // in-place clamp did act while the reference made this event: attributed without a replay (a defect of another kind would
            // also show in the events in which no sub-50-eV argument occurs - the vast majority - and is not attributed there)
            clamp = true;
            unprobed_attributed++;
          }
          if (probes++ < cap) {
            ref_state().inplace_clamp = false;
            reinit();
            tape.rewind();
            vf_clearevent_();
            rok2 = ref_genbbsub(1, c.name, c.level, c.mode, 1, ier2);
            rd2 = tape.pos;
            re2.fetch();
            ref_state().inplace_clamp = true;
            reinit(); // back to the faithful reference state
          }
          if (rok2 && ier2 == 0) {
            CmpResult cr2 = compare_events(re2, pe, rd2, pd, false);
            bool sub50 = false; // and a lepton below 50 eV really occurs on one of the two sides' paths
            for (int i = 0; i < re.np && i < 2; i++)
              if ((re.code[i] == 2 || re.code[i] == 3) && re.ekin(i) <= 50.e-6 * (1 + 1e-9)) sub50 = true;
            for (size_t i = 0; i < pe.get_particles().size() && i < 2; i++)
              if (ekin(pe.get_particles()[i]) <= 50.e-6) sub50 = true;
            if (cr2.same && sub50) {
              clamp = true;
              probe_confirmed++;
            } else {
              probe_refuted++;
            }
          }
        }
        if (clamp) rec(st.mm, "dbd|lepton-below-50eV-clamped-in-reference", lab + ": " + cr.detail);
        else rec(st.mm, lab + "|" + cr.kind + "|" + re.signature(cr.index < 0 ? 0 : cr.index), cr.detail);
      }
      last_sig = hash_str(re.signature(1000));
      st.sigs.insert(last_sig);
      std::string wfk, wfd;
      if (!wellformed(pe, c.name, emax, wfk, wfd)) rec(st.wf, lab + "|" + wfk, wfd);
      if (gen_ok) {
        tape.rewind();
        try {
          gen.shoot(tape, pe2);
          if (tape.pos != pd || !events_bit_identical(pe, pe2)) rec(st.mm, lab + "|porcelain", fmt("decay0_generator::shoot differs from genbbsub (draws %zu vs %zu)", tape.pos, pd));
        } catch (std::exception & x) {
          rec(st.mm, lab + "|porcelain-exception", x.what());
        }
      }
      if (st.sample.empty() && st.events > 2)
        st.sample = "{\"tape\":" + tape.prefix_json(std::min<size_t>(pd, 10)) + ",\"draws\":" + std::to_string(pd) + ",\"ref\":" + re.json() + ",\"port\":" + event_json(pe) + "}";
    };
    for (long i = 0; i < n_iid; i++) {
      tape.reseed(seed, stream++);
      one("");
    }
    std::vector<double> grid = grid_values(n_grid);
    for (size_t k = 0; k < 12; k++) {
      for (double g : grid) {
        tape.reseed(seed, stream++);
        tape.pin(k, g);
        one(fmt("cell %zu=%.17g", k, g));
      }
    }
    // deep steering through the daughter's de-excitation cascade (thresholds given on the spec line)
    long deep_events = getenv("VERIF_DEEP_EVENTS") ? atol(getenv("VERIF_DEEP_EVENTS")) : 0;
    if (deep_events > 0 && !c.thr.empty()) {
      // (bounded to what the quick tier explores: at thorough budgets this pass lands on tens of thousands of acceptance boundaries where the
      //  reference's in-place clamp acts - more than the replay probes can attribute one by one; see DESIGN 7.4, round 11)
      const long pass2 = std::min(deep_events / 3, 50000L);
      ds = deep_steer(tape, seed, stream + (1ULL << 22), c.thr, deep_events - pass2, 4, [&](const std::string & steer, size_t & d) {
        one(steer);
        d = last_draws;
        return last_sig;
      });
      // second pass guided by (branch, number of deviates): both sides of every accept/reject boundary (see c01_diff.cc)
      DeepSteerStats ds2 = deep_steer(tape, seed, stream + (1ULL << 22) + 64, c.thr, pass2, 4, [&](const std::string & steer, size_t & d) {
        one(steer);
        d = last_draws;
        return last_sig * 1000003ull + std::min<uint64_t>((uint64_t)last_draws, 400); // capped, see the first harness
      });
      ds.events += ds2.events;
      ds.nodes_expanded += ds2.nodes_expanded;
      ds.nodes_found += ds2.nodes_found;
      ds.max_depth = std::max(ds.max_depth, ds2.max_depth);
      ds.frontier_left += ds2.frontier_left;
    }
    if (gen_ok && std::fabs(gen.get_to_all_events() - pars.toallevents) > 1e-6 * pars.toallevents)
      record(st.mm, lab + "|porcelain-toallevents", fmt("get_to_all_events %.12g vs genbbsub %.12g", gen.get_to_all_events(), pars.toallevents));
  }
  std::sort(st.draws_hist.begin(), st.draws_hist.end());
  size_t p999 = st.draws_hist.empty() ? 0 : st.draws_hist[(size_t)(0.999 * (st.draws_hist.size() - 1))];
  fprintf(OUT, "\"deep\":[%ld,%ld,%ld,%ld,%ld],\"table_bins\":%ld,", ds.events, ds.nodes_expanded, ds.nodes_found, ds.max_depth, ds.frontier_left, st.table_bins);
  fprintf(OUT, "\"accepted\":%s,\"toallevents\":%s,\"Qbb\":%s,\"events\":%ld,\"distinct_signatures\":%zu,\"max_draws\":%zu,\"p999_draws\":%zu,\"cap_hits\":%ld,\"sample\":%s,",
          (accepted_ref && accepted_port) ? "true" : "false", jnum(pars.toallevents).c_str(), jnum(pars.Qbb).c_str(), st.events, st.sigs.size(), st.max_draws, p999, st.cap_hits,
          st.sample.empty() ? "null" : st.sample.c_str());
  emit_mismatches(OUT, "mismatches", st.mm);
  fprintf(OUT, ",");
  emit_mismatches(OUT, "wellformed", st.wf);
  fprintf(OUT, "}\n");
  fflush(OUT);
}

int main(int argc, char ** argv)
{
  if (argc < 8) {
    fprintf(stderr, "usage\n");
    return 2;
  }
  int fd = dup(1);
  dup2(2, 1);
  OUT = fdopen(fd, "w");
  uint64_t seed = strtoull(argv[2], 0, 10);
  long n_iid = atol(argv[3]);
  int n_grid = atoi(argv[4]);
  ref_state().port_fermi = atoi(argv[5]) != 0;
  int shard = atoi(argv[6]), nshards = atoi(argv[7]);
  std::ifstream in(argv[1]);
  std::string line;
  int idx = 0;
  while (std::getline(in, line)) {
    if (line.empty()) continue;
    if ((idx++ % nshards) != shard) continue;
    std::istringstream ls(line);
    Config c;
    int w = 0;
    ls >> c.name >> c.level >> c.mode >> c.e1 >> c.e2 >> w;
    c.window = w != 0;
    for (int i = 0; i < 7; i++)
      if (!(ls >> c.nme[i])) break;
    ls.clear();
    std::string tk;
    if (ls >> tk && tk == "T") {
      double v;
      while (ls >> v)
        if (v > 0 && v < 1) c.thr.push_back(v);
    }
    run_config(c, seed, n_iid, n_grid);
  }
  return 0;
}
