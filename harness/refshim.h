// Reference-side plumbing (DESIGN.md 1.3/1.4): shims for the externals the Decay0
// reference leaves unresolved, access to its COMMON blocks, and the event comparator.
// Include from exactly one translation unit.
#ifndef VERIF_REFSHIM_H
#define VERIF_REFSHIM_H

#include <cmath>
#include <csetjmp>
#include <cstdlib>
#include <cstdio>
#include <cstring>
#include <string>
#include <vector>
#include <unistd.h>

#include <gsl/gsl_errno.h>
#include <gsl/gsl_sf.h>

#include <bxdecay0/dgmlt1.h>
#include <bxdecay0/dgmlt2.h>
#include <bxdecay0/divdif.h>
#include <bxdecay0/event.h>
#include <bxdecay0/fermi.h>
#include <bxdecay0/gauss.h>

#include "evutil.h"
#include "tape.h"

extern "C" {
void vf_getevent_(double * tev, int * np, int * npg, double * pm, double * pt);
void vf_clearevent_();
void vf_setenrange_(double * e1, double * e2);
void vf_getenrange_(double * e1, double * e2, double * toall, int * level);
void vf_gethelpbb_(double * z, double * a, double * e0);
void vf_getspthe1_(double * tab, double * spmax);
void vf_seteta_(double * c7);
void vf_initpar_();
void vf_genbbsub_(int * i2bbs, int * ichn, int * ilevel, int * modebb, int * istart, int * ier);
void vf_getconst_(double * pi, double * emass);
double fermiref_(double * Z, double * E);
}

namespace verif {

  struct RefState
  {
    Tape * tape = nullptr;
    jmp_buf jb;
    bool jb_armed = false;
    bool port_fermi = false; // Level B kernel substitution while the Level-A fermi finding stands
    long clamp_acted = 0;      // how often the in-place clamp changed an argument (reset by the caller around an event)
    bool inplace_clamp = true; // with port_fermi: reproduce the reference's in-place clamp of E < 50 eV (root-cause probes switch it off)
  };
  inline RefState & ref_state()
  {
    static RefState s;
    return s;
  }

  inline double ref_draw()
  {
    RefState & s = ref_state();
    if (s.tape->pos >= s.tape->cap) {
      if (s.jb_armed) longjmp(s.jb, 1);
      fprintf(stderr, "verif: reference exhausted the tape outside an armed region\n");
      _exit(3);
    }
    return (*s.tape)();
  }

  struct RefEvent
  {
    double tevst = 0;
    int np = 0;
    int code[100];
    double p[100][3];
    double dt[100];
    void fetch()
    {
      double pm[300];
      int n;
      vf_getevent_(&tevst, &n, code, pm, dt);
      np = n;
      int m = n < 100 ? (n < 0 ? 0 : n) : 100;
      for (int i = 0; i < m; i++)
        for (int k = 0; k < 3; k++) p[i][k] = pm[3 * i + k];
    }
    double ekin(int i) const
    {
      double m = mass_of(code[i]);
      double pp = std::sqrt(p[i][0] * p[i][0] + p[i][1] * p[i][1] + p[i][2] * p[i][2]);
      if (m == 0) return pp;
      return std::sqrt(pp * pp + m * m) - m;
    }
    // branch signature: photons and alphas carry their (discrete) energy in keV, e-/e+ only their
    // species (a beta energy is continuous and would make every event its own "branch")
    std::string signature(int upto) const
    {
      std::string s;
      char buf[48];
      for (int i = 0; i < np && i < 100 && i <= upto; i++) {
        if (code[i] == 2 || code[i] == 3) snprintf(buf, sizeof buf, "%s%d", i ? "," : "", code[i]);
        else snprintf(buf, sizeof buf, "%s%d:%ld", i ? "," : "", code[i], std::lround(ekin(i) * 1000.0));
        s += buf;
      }
      return s;
    }
    std::string json() const
    {
      std::string s = "{\"tevst\":" + jnum(tevst) + ",\"p\":[";
      for (int i = 0; i < np && i < 100; i++) {
        if (i) s += ",";
        s += "[" + std::to_string(code[i]) + "," + jnum(dt[i]) + "," + jnum(p[i][0]) + "," + jnum(p[i][1]) + ","
             + jnum(p[i][2]) + "]";
      }
      return s + "]}";
    }
  };

  // call GENBBsub; returns false if the draw cap cut it
  inline bool ref_genbbsub(int i2bbs, const std::string & name, int ilevel, int modebb, int istart, int & ier)
  {
    int ich[16];
    for (int i = 0; i < 16; i++) ich[i] = i < (int)name.size() ? (unsigned char)name[i] : ' ';
    RefState & s = ref_state();
    s.jb_armed = true;
    if (setjmp(s.jb) != 0) {
      s.jb_armed = false;
      return false;
    }
    vf_genbbsub_(&i2bbs, ich, &ilevel, &modebb, &istart, &ier);
    s.jb_armed = false;
    return true;
  }

  struct CmpResult
  {
    bool same = true;
    std::string kind; // draws | count | species | momentum | time | evtime | generator
    int index = -1;
    std::string detail;
    bool y90_waiver = false;
    bool y90_mono = false; // the port's pair shares the energy equally, as the reference's does
  };

  inline bool momenta_close(const double * a, const bxdecay0::particle & b, double rel = 1e-9)
  {
    double d = std::fabs(a[0] - b.get_px()) + std::fabs(a[1] - b.get_py()) + std::fabs(a[2] - b.get_pz());
    double n = std::fabs(a[0]) + std::fabs(a[1]) + std::fabs(a[2]);
    return d <= rel * n + 1e-12;
  }

  inline bool time_close(double tref, double tport) { return std::fabs(tref - tport) <= 1e-9 * std::fabs(tref) + 1e-30; }

  // Comparator of DESIGN 1.4.  `y90` enables the documented Y90 pair exception.
  inline CmpResult compare_events(const RefEvent & r, const bxdecay0::event & e, size_t ref_draws, size_t port_draws,
                                  bool y90 = false)
  {
    CmpResult c;
    char buf[256];
    const auto & pp = e.get_particles();
    bool waive_draws = false;
    int ncmp = r.np;
    if (y90 && r.np == 3 && r.code[0] == 3 && ((r.code[1] == 2 && r.code[2] == 3) || (r.code[1] == 3 && r.code[2] == 2))) {
      // reference shape [beta e-, pair]: the port samples the pair from the revised spectrum
      waive_draws = true;
      c.y90_waiver = true;
      ncmp = 1;
      if (pp.size() != 3) {
        c.same = false; c.kind = "count"; c.index = 0;
        snprintf(buf, sizeof buf, "Y90 pair branch: reference 3 particles, port %zu", pp.size());
        c.detail = buf;
        return c;
      }
      // structural check of the port's pair
      const auto & a = pp[1];
      const auto & b = pp[2];
      bool species_ok = (a.get_code() == 2 && b.get_code() == 3) || (a.get_code() == 3 && b.get_code() == 2);
      double ea = ekin(a), eb = ekin(b);
      c.y90_mono = std::fabs(ea - eb) <= 1e-9;
      double cosab = (a.get_px() * b.get_px() + a.get_py() * b.get_py() + a.get_pz() * b.get_pz()) / (a.get_p() * b.get_p());
      bool ok = species_ok && ea >= 0 && eb >= 0 && std::fabs(ea + eb - 0.739) <= 1e-9 && std::fabs(cosab - 1.0) <= 1e-9
                && same_bits(a.get_time(), b.get_time()) && a.get_time() >= pp[0].get_time();
      // the documented exception covers the energy sharing of the pair only: its emission time must still be the level's
      // exponential delay.  The port draws that delay from another tape cell than the reference (the revised spectrum consumes
      // a different number of deviates), so: T_port / T_ref == ln(u_k) / ln(u_j) for some cells j, k consumed by the two sides.
      if (ok && ref_state().tape != nullptr) {
        double Tref = r.dt[1], Tp = a.get_time() - pp[0].get_time();
        bool tok = (Tref == 0.0 && Tp == 0.0);
        Tape * tp = ref_state().tape;
        tp->fill(std::max(ref_draws, port_draws));
        for (size_t j = 0; j < ref_draws && !tok && Tref > 0; j++)
          for (size_t k = 0; k < port_draws && !tok; k++) {
            double lhs = Tp * std::log(tp->cells[j]), rhs = Tref * std::log(tp->cells[k]);
            if (std::fabs(lhs - rhs) <= 1e-11 * std::fabs(rhs)) tok = true;
          }
        if (!tok) {
          c.same = false; c.kind = "y90pair-time"; c.index = 1;
          snprintf(buf, sizeof buf, "Y90 pair: emitted %.9g s after the beta; the reference delays it by %.9g s and no consumed deviate gives the port's delay from the same half-life", Tp, Tref);
          c.detail = buf;
          return c;
        }
      }
      if (!ok) {
        c.same = false; c.kind = "y90pair"; c.index = 1;
        snprintf(buf, sizeof buf, "Y90 pair: species %d,%d E=%.9g+%.9g cos=%.12g t=%.6g,%.6g", (int)a.get_code(), (int)b.get_code(), ea, eb, cosab, a.get_time(), b.get_time());
        c.detail = buf;
        return c;
      }
    }
    if (!waive_draws && ref_draws != port_draws) {
      c.same = false; c.kind = "draws";
      snprintf(buf, sizeof buf, "reference consumed %zu deviates, port %zu", ref_draws, port_draws);
      c.detail = buf;
      // continue to find the first differing particle for the signature
    }
    if (!waive_draws && (int)pp.size() != r.np) {
      c.same = false;
      if (c.kind.empty() || c.kind == "draws") c.kind = "count";
      snprintf(buf, sizeof buf, "reference %d particles, port %zu", r.np, pp.size());
      c.detail = buf;
    }
    int n = std::min<int>(ncmp, (int)pp.size());
    double tsum = 0;
    for (int i = 0; i < n; i++) {
      tsum += r.dt[i];
      const bxdecay0::particle * q = &pp[i];
      int rc = r.code[i];
      if ((int)q->get_code() != rc) {
        // admissible: adjacent e+/e- of an internal pair swapped, bit-identical momenta and time in the port
        bool swapped = false;
        if (i + 1 < n && ((rc == 2 && r.code[i + 1] == 3) || (rc == 3 && r.code[i + 1] == 2))
            && (int)pp[i].get_code() == r.code[i + 1] && (int)pp[i + 1].get_code() == rc
            && same_bits(pp[i].get_px(), pp[i + 1].get_px()) && same_bits(pp[i].get_py(), pp[i + 1].get_py())
            && same_bits(pp[i].get_pz(), pp[i + 1].get_pz()) && same_bits(pp[i].get_time(), pp[i + 1].get_time())
            && r.dt[i + 1] == 0.0) {
          swapped = true;
        }
        if (!swapped) {
          c.same = false; c.kind = "species"; c.index = i;
          snprintf(buf, sizeof buf, "particle %d: reference species %d, port %d", i, rc, (int)q->get_code());
          c.detail = buf;
          return c;
        }
        // compare i and i+1 momenta (identical anyway) then skip
        if (!momenta_close(r.p[i], pp[i]) || !momenta_close(r.p[i + 1], pp[i + 1])) {
          c.same = false; c.kind = "momentum"; c.index = i;
          c.detail = "pair momenta differ";
          return c;
        }
        if (!time_close(tsum, pp[i].get_time())) {
          c.same = false; c.kind = "time"; c.index = i;
          snprintf(buf, sizeof buf, "particle %d: reference time %.17g, port %.17g", i, tsum, pp[i].get_time());
          c.detail = buf;
          return c;
        }
        i++;
        continue;
      }
      if (!momenta_close(r.p[i], *q)) {
        c.same = false; c.kind = "momentum"; c.index = i;
        snprintf(buf, sizeof buf, "particle %d (species %d): reference p=(%.12g,%.12g,%.12g) port p=(%.12g,%.12g,%.12g)", i, rc,
                 r.p[i][0], r.p[i][1], r.p[i][2], q->get_px(), q->get_py(), q->get_pz());
        c.detail = buf;
        return c;
      }
      if (!time_close(tsum, q->get_time())) {
        c.same = false; c.kind = "time"; c.index = i;
        snprintf(buf, sizeof buf, "particle %d (species %d): reference time %.17g (running sum), port %.17g", i, rc, tsum, q->get_time());
        c.detail = buf;
        return c;
      }
    }
    if (!c.same) {
      if (c.index < 0) c.index = n; // first index beyond the common prefix
      return c;
    }
    if (!(e.get_time() == 0.0)) {
      c.same = false; c.kind = "evtime"; c.index = 0;
      snprintf(buf, sizeof buf, "event reference time %.17g, must be 0", e.get_time());
      c.detail = buf;
    }
    return c;
  }

} // namespace verif

// ---- shims for the reference's unresolved externals -------------------------------------------
extern "C" {

void ranlux_(double * r, int * n)
{
  for (int i = 0; i < *n; i++) r[i] = verif::ref_draw();
}
double rndm_(double *) { return verif::ref_draw(); }
void datime_(int *, int *) {}

typedef double (*f77_func)(double *);
static double verif_tramp_func(double x, void * params)
{
  f77_func f = (f77_func)params;
  double xx = x;
  return f(&xx);
}
double gauss_(f77_func f, double * a, double * b, double * eps)
{
  return bxdecay0::decay0_gauss(verif_tramp_func, *a, *b, *eps, (void *)f);
}

typedef void (*f77_fsub)(int * m, double * u, double * f, double * x);
static void verif_tramp_fsub(int m, const double * u, double * f, double * x, void * params)
{
  f77_fsub fs = (f77_fsub)params;
  int mm = m;
  fs(&mm, const_cast<double *>(u), f, x);
}
double dgmlt1_(f77_fsub fs, double * a, double * b, int * ni, int * ng, double * x)
{
  return bxdecay0::decay0_dgmlt1(verif_tramp_fsub, *a, *b, *ni, *ng, x, (void *)fs);
}
double dgmlt2_(f77_fsub fs, double * a, double * b, int * ni, int * ng, double * x)
{
  return bxdecay0::decay0_dgmlt2(verif_tramp_fsub, *a, *b, *ni, *ng, x, (void *)fs);
}
double divdif_(double * F, double * A, int * nn, double * x, int * mm)
{
  return bxdecay0::decay0_divdif(F, A, *nn, *x, *mm);
}
__complex__ double cgamma_(__complex__ double * z)
{
  gsl_sf_result lnr, arg;
  int st = gsl_sf_lngamma_complex_e(__real__ * z, __imag__ * z, &lnr, &arg);
  (void)st;
  double m = std::exp(lnr.val);
  __complex__ double r;
  __real__ r = m * std::cos(arg.val);
  __imag__ r = m * std::sin(arg.val);
  return r;
}
// fermi: the reference's own (renamed fermiref) or, for event-level runs while the Level-A
// finding about E/0.511 stands, the port's.
double fermi_(double * Z, double * E)
{
  if (verif::ref_state().port_fermi) {
    if (*E < 50.e-6) {
      verif::ref_state().clamp_acted++; // (counted with the side effect switched off too: "would have acted")
      if (verif::ref_state().inplace_clamp) *E = 50.e-6; // the reference clamps its argument in place
    }
    return bxdecay0::decay0_fermi(*Z, *E);
  }
  return fermiref_(Z, E);
}
}

#endif
