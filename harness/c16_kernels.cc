// C16: numerical kernels against analytic oracles.
// Output: JSON lines  {"group":..,"n":..,"fails":[{"key":..,"detail":..}..],"maxerr":..}
#include <cmath>
#include <complex>
#include <cstdarg>
#include <cstdio>
#include <cstdlib>
#include <cstring>
#include <functional>
#include <map>
#include <set>
#include <sstream>
#include <string>
#include <vector>

#include <gsl/gsl_errno.h>
#include <gsl/gsl_integration.h>

#include <bxdecay0/dgmlt1.h>
#include <bxdecay0/dgmlt2.h>
#include <bxdecay0/divdif.h>
#include <bxdecay0/fermi.h>
#include <bxdecay0/gauss.h>
#include <bxdecay0/tgold.h>
#include <bxdecay0/tsimpr.h>
#include <bxdecay0/utils.h>
#include <bxdecay0/particle_utils.h>

#include "tape.h"
#include "evutil.h"

using namespace bxdecay0;
using verif::jnum;
using verif::jstr;

struct Group
{
  std::string name;
  long n = 0;
  double maxerr = 0;
  std::map<std::string, std::string> fails; // key -> first detail
  std::set<std::string> distinct;
  void fail(const std::string & key, const std::string & detail)
  {
    if (!fails.count(key)) fails[key] = detail;
  }
  void emit()
  {
    printf("{\"group\":%s,\"n\":%ld,\"distinct\":%zu,\"maxerr\":%s,\"fails\":[", jstr(name).c_str(), n,
           distinct.size(), jnum(maxerr).c_str());
    bool first = true;
    for (auto & kv : fails) {
      printf("%s{\"key\":%s,\"detail\":%s}", first ? "" : ",", jstr(kv.first).c_str(), jstr(kv.second).c_str());
      first = false;
    }
    printf("]}\n");
    fflush(stdout);
  }
};

static std::string fmt(const char * f, ...)
{
  char buf[512];
  va_list ap;
  va_start(ap, f);
  vsnprintf(buf, sizeof buf, f, ap);
  va_end(ap);
  return buf;
}

// ---------------------------------------------------------------- dgmlt
struct MonoPar
{
  int k;
  long calls;
  long maxbatch;
};
static void mono1(int n, const double * u, double * f, double * /*x*/, void * params)
{
  MonoPar * p = (MonoPar *)params;
  p->calls++;
  if (n > p->maxbatch) p->maxbatch = n;
  for (int i = 0; i < n; i++) f[i] = std::pow(u[i], p->k);
}

static double exact_mono(int k, double a, double b)
{
  return (std::pow(b, k + 1) - std::pow(a, k + 1)) / (k + 1);
}

template <class F>
static void dgmlt_group(Group & g, const char * tag, F call, verif::Rng & rng, int nintervals)
{
  // intervals: fixed canonical + random
  std::vector<std::pair<double, double>> iv = {{-1, 1}, {0, 1}, {0, 4.3}, {-2.5, 0.5}, {1, 3}};
  for (int i = 0; i < nintervals; i++) {
    double a = -3 + 6 * rng.uniform();
    double w = 0.05 + 4 * rng.uniform();
    iv.push_back({a, a + w});
  }
  for (int NG : {6, 8}) {
    int maxdeg = 2 * NG - 1;
    for (auto ab : iv) {
      double a = ab.first, b = ab.second;
      for (int NI = 1; NI <= 40; NI++) {
        for (int k = 0; k <= maxdeg; k++) {
          MonoPar mp{k, 0, 0};
          double x[2] = {0, 0};
          double r = call(a, b, NI, NG, x, &mp);
          double ex = exact_mono(k, a, b);
          // scale: integral of |x|^k over the interval
          double m = std::max(std::fabs(a), std::fabs(b));
          double scale = std::pow(m, k) * (b - a);
          double err = std::fabs(r - ex) / scale;
          g.n++;
          if (err > g.maxerr) g.maxerr = err;
          g.distinct.insert(fmt("%s/NG%d/NI%d/k%d", tag, NG, NI, k));
          if (!(err <= 1e-13)) {
            g.fail(fmt("%s|NG%d|exactness", tag, NG),
                   fmt("x^%d on [%.6g,%.6g] NI=%d NG=%d: got %.17g exact %.17g relerr %.3g", k, a, b, NI, NG, r, ex, err));
          }
          if (mp.maxbatch > 64) g.fail(fmt("%s|batch>64", tag), fmt("batch %ld", mp.maxbatch));
        }
      }
      // vacuity guard: degree 2*NG must NOT be exact with one panel on [-1,1]-like interval
    }
    // any other order than 8 means the 6-point rule (documented fallback of the routines): still exact to degree 11
    if (NG == 6) {
      for (int other : {0, 1, 5, 7, 9, 10, 12, 16, 64}) {
        for (int NI : {1, 3, 11}) {
          for (int k = 0; k <= 11; k++) {
            MonoPar mo{k, 0, 0};
            double xo[2] = {0, 0};
            double ro = call(-0.7, 1.9, NI, other, xo, &mo);
            double exo = exact_mono(k, -0.7, 1.9);
            double sc = std::pow(1.9, k) * 2.6;
            g.n++;
            g.distinct.insert(fmt("%s/NG%d-fallback/NI%d/k%d", tag, other, NI, k));
            if (!(std::fabs(ro - exo) / sc <= 1e-13))
              g.fail(fmt("%s|NG-fallback|exactness", tag), fmt("x^%d on [-0.7,1.9] NI=%d NG=%d (6-point fallback): got %.17g exact %.17g", k, NI, other, ro, exo));
          }
        }
      }
    }
    MonoPar mp{2 * NG, 0, 0};
    double x[2] = {0, 0};
    double r = call(-1.0, 1.0, 1, NG, x, &mp);
    double ex = exact_mono(2 * NG, -1, 1);
    g.n++;
    if (std::fabs(r - ex) < 1e-9) {
      g.fail(fmt("%s|NG%d|vacuous", tag, NG), fmt("degree %d integrated exactly (%.3g): oracle would be vacuous", 2 * NG, r - ex));
    }
  }
}

static double call1(double a, double b, int ni, int ng, double * x, void * p)
{
  return decay0_dgmlt1(mono1, a, b, ni, ng, x, p);
}
static double call2(double a, double b, int ni, int ng, double * x, void * p)
{
  return decay0_dgmlt2(mono1, a, b, ni, ng, x, p);
}

// ---------------------------------------------------------------- nested panels (iterated integrals, as the library's window ratios use them)
struct NestPar
{
  int a, b, c;          // exponents of x, y, z
  double lo[3], hi[3];
  int ni[3], ng[3];
  int order[3];         // which routine at each depth: 1 = dgmlt1, 2 = dgmlt2
  double x, y;          // current outer abscissae
};
static void nest_inner(int n, const double * u, double * f, double *, void * params)
{
  NestPar * p = (NestPar *)params;
  for (int i = 0; i < n; i++) f[i] = std::pow(p->x, p->a) * std::pow(p->y, p->b) * std::pow(u[i], p->c);
}
static double nest_call(int depth, fsub1_type f, NestPar * p)
{
  double X[2] = {0, 0};
  return p->order[depth] == 1 ? decay0_dgmlt1(f, p->lo[depth], p->hi[depth], p->ni[depth], p->ng[depth], X, p)
                              : decay0_dgmlt2(f, p->lo[depth], p->hi[depth], p->ni[depth], p->ng[depth], X, p);
}
static void nest_mid(int n, const double * u, double * f, double *, void * params)
{
  NestPar * p = (NestPar *)params;
  for (int i = 0; i < n; i++) {
    p->y = u[i];
    f[i] = nest_call(2, nest_inner, p);
  }
}
static void nest_outer(int n, const double * u, double * f, double *, void * params)
{
  NestPar * p = (NestPar *)params;
  for (int i = 0; i < n; i++) {
    p->x = u[i];
    f[i] = nest_call(1, nest_mid, p);
  }
}
static void nested_group(Group & g, verif::Rng & rng, int ncases)
{
  // the integrand of a panel routine may itself call a panel routine (the same one included): each call owns its work arrays
  static const int ORD[][3] = {{1, 2, 1}, {1, 1, 1}, {2, 2, 2}, {2, 1, 2}, {1, 2, 2}, {1, 1, 2}};
  for (int i = 0; i < ncases; i++) {
    NestPar p;
    const int * o = ORD[i % 6];
    for (int d = 0; d < 3; d++) {
      p.order[d] = o[d];
      p.ng[d] = (rng.below(2) == 0) ? 6 : 8;
      p.ni[d] = 1 + (int)rng.below(3);
      p.lo[d] = -1 + 2 * rng.uniform();
      p.hi[d] = p.lo[d] + 0.3 + 2 * rng.uniform();
    }
    p.a = (int)rng.below(2 * p.ng[0]);
    p.b = (int)rng.below(2 * p.ng[1]);
    p.c = (int)rng.below(2 * p.ng[2]);
    p.x = p.y = 0;
    double r = nest_call(0, nest_outer, &p);
    long double ex = (long double)exact_mono(p.a, p.lo[0], p.hi[0]) * (long double)exact_mono(p.b, p.lo[1], p.hi[1]) * (long double)exact_mono(p.c, p.lo[2], p.hi[2]);
    long double sc = 0; // scale: the product of the integrals of |x|^a etc. bounds the magnitude the roundoff refers to
    {
      auto absint = [](int k, double lo, double hi) {
        long double m = std::max(std::fabs(lo), std::fabs(hi));
        return powl(m, k) * (long double)(hi - lo);
      };
      sc = absint(p.a, p.lo[0], p.hi[0]) * absint(p.b, p.lo[1], p.hi[1]) * absint(p.c, p.lo[2], p.hi[2]);
    }
    double err = (double)(fabsl((long double)r - ex) / (sc > 0 ? sc : 1));
    g.n++;
    g.distinct.insert(fmt("%d%d%d/ng%d%d%d", o[0], o[1], o[2], p.ng[0], p.ng[1], p.ng[2]));
    if (err > g.maxerr) g.maxerr = err;
    if (!(err <= 1e-12))
      g.fail(fmt("nested|%d%d%d", o[0], o[1], o[2]),
             fmt("iterated integral of x^%d y^%d z^%d through dgmlt%d -> dgmlt%d -> dgmlt%d (NG %d %d %d, NI %d %d %d): got %.15g, exact %.15Lg (error %.3g of the scale)", p.a, p.b, p.c, o[0], o[1],
                 o[2], p.ng[0], p.ng[1], p.ng[2], p.ni[0], p.ni[1], p.ni[2], r, ex, err));
  }
}

// ---------------------------------------------------------------- gauss
// interposed gsl_integration_qng statuses are not needed here: we run QNG ourselves to learn
// whether the first attempt missed its tolerance (same library routine, same arguments).
struct FPar
{
  int kind;
  double a, b, c;
  double scale = 1.0; // the relative-tolerance contract does not depend on the magnitude of the integrand
};
static double smooth1(double x, void * params);
static double smooth(double x, void * params) { return ((FPar *)params)->scale * smooth1(x, params); }
static double smooth1(double x, void * params)
{
  FPar * p = (FPar *)params;
  switch (p->kind) {
  case 0: return std::exp(p->a * x);
  case 1: return std::sin(p->a * x + p->b) + 1.5;
  case 2: return 1.0 / (1.0 + p->a * x * x);
  case 3: return p->a + p->b * x + p->c * x * x * x;
  case 4: return std::exp(-(x - p->b) * (x - p->b) / (2 * p->a * p->a));
  case 5: return x * x * std::exp(-p->a * x) + 0.1;
  case 6: return std::sin(p->a * x + p->b) + 1.5;                       // a large: needs 43/87 points
  case 7: return std::exp(-(x - p->b) * (x - p->b) / (2 * p->a * p->a)); // a small: narrow peak
  }
  return 0;
}
static long double smooth_exact(const FPar & p, long double lo, long double hi)
{
  auto F = [&](long double x) -> long double {
    switch (p.kind) {
    case 0: return std::exp((long double)p.a * x) / p.a;
    case 1: case 6: return -std::cos((long double)p.a * x + p.b) / p.a + 1.5L * x;
    case 2: return std::atan(std::sqrt((long double)p.a) * x) / std::sqrt((long double)p.a);
    case 3: return p.a * x + p.b * x * x / 2 + p.c * x * x * x * x / 4;
    case 4: case 7: return (long double)p.a * std::sqrt(M_PIl / 2) * std::erf((x - p.b) / (std::sqrt(2.0L) * p.a));
    case 5: {
      long double a = p.a;
      return -std::exp(-a * x) * (x * x / a + 2 * x / (a * a) + 2 / (a * a * a)) + 0.1L * x;
    }
    }
    return 0;
  };
  return F(hi) - F(lo);
}

static void gauss_group(Group & g, verif::Rng & rng, int ncases)
{
  const double tols[] = {1e-2, 1e-3, 1e-4, 1e-5, 1e-6, 1e-7, 1e-8, 1e-10, 1e-12};
  for (int c = 0; c < ncases; c++) {
    FPar p;
    p.kind = c % 8;
    p.a = 0.3 + 2.0 * rng.uniform();
    p.b = -1 + 2 * rng.uniform();
    p.c = -1 + 2 * rng.uniform();
    if (p.kind == 4) p.a = 0.4 + rng.uniform();
    double lo = -1 + 2 * rng.uniform();
    double hi = lo + 0.2 + 2.5 * rng.uniform();
    if (p.kind == 5) { lo = std::fabs(lo); hi = lo + 0.2 + 2.5 * rng.uniform(); }
    if (p.kind == 6) p.a = std::min(4 + 40 * rng.uniform(), 40.0 / (hi - lo)); // at most ~6 periods over the interval: resolved by the 43-point rule (see kind 7)
    if (p.kind == 7) {
      // a narrow peak, but one the rule can see: QNG is a fixed sequence of 10/21/43/87-point rules whose error estimate compares
      // successive rules; a peak much narrower than the spacing of the 21 nodes (about 1/20 of the interval) falls between the nodes of
      // both coarse rules and is reported as converged - "smooth" in the property means smooth at the resolution of the rule
      p.a = std::max(0.02 + 0.2 * rng.uniform(), 0.06 * (hi - lo));
      p.b = lo + (hi - lo) * (0.2 + 0.6 * rng.uniform());
    }
    static const double scales[] = {1.0, 1e-6, 1e-12, 1e-20, 1e-60, 1e9};
    p.scale = scales[(c / 8) % 6];
    long double ex = (long double)p.scale * smooth_exact(p, lo, hi);
    for (double tol : tols) {
      // the wrapper says on the error stream when the integrator gave up ("[error] ... GSL QNG integration error"): a value
      // returned WITHOUT that message is a value it vouches for
      std::ostringstream said;
      std::streambuf * old_cerr = std::cerr.rdbuf(said.rdbuf());
      double r;
      try {
        r = decay0_gauss(smooth, lo, hi, tol, &p);
      } catch (...) {
        std::cerr.rdbuf(old_cerr);
        throw;
      }
      std::cerr.rdbuf(old_cerr);
      const bool reported_failure = said.str().find("[error]") != std::string::npos;
      // did the first attempt (same routine, same arguments) miss its tolerance?
      gsl_function F;
      F.function = smooth;
      F.params = &p;
      double res, abserr;
      size_t neval;
      gsl_error_handler_t * old = gsl_set_error_handler_off();
      int st = gsl_integration_qng(&F, lo, hi, 0.0, tol, &res, &abserr, &neval);
      double allowed = tol;
      int st2 = -1;
      if (st == GSL_ETOL) { // the wrapper retries once with a 10x looser tolerance
        st2 = gsl_integration_qng(&F, lo, hi, 0.0, 10 * tol, &res, &abserr, &neval);
        allowed = 10 * tol;
      }
      gsl_set_error_handler(old);
      double err = (double)(std::fabs((long double)r - ex) / std::fabs(ex));
      g.n++;
      g.distinct.insert(fmt("k%d/tol%g/st%d/%d/x%g", p.kind, tol, st, st2, p.scale));
      if (st != 0 && st2 != 0) {
        // QNG gave up twice: the wrapper promises nothing - provided it says so; a silent value must still be within the relaxed tolerance
        g.distinct.insert(fmt("gave-up/k%d/%s", p.kind, reported_failure ? "reported" : "silent"));
        if (!reported_failure && !(err <= 10 * tol + 4e-16))
          g.fail(fmt("gauss|kind%d|silent-failure", p.kind),
                 fmt("kind %d a=%.6g b=%.6g on [%.6g,%.6g] tol %g: the integrator misses the tolerance twice (statuses %d, %d), the wrapper reports nothing and returns %.17g (exact %.17Lg, "
                     "relative error %.3g)", p.kind, p.a, p.b, lo, hi, tol, st, st2, r, ex, err));
        continue;
      }
      if (err / allowed > g.maxerr) g.maxerr = err / allowed;
      if (!(err <= allowed + 4e-16)) {
        g.fail(fmt("gauss|kind%d|tolerance", p.kind),
               fmt("kind %d a=%.6g b=%.6g c=%.6g scaled by %g on [%.6g,%.6g] tol %g: got %.17g exact %.17Lg relerr %.3g (first status %d)",
                   p.kind, p.a, p.b, p.c, p.scale, lo, hi, tol, r, ex, err, st));
      }
    }
  }
}

// ---------------------------------------------------------------- tsimpr
static double cubic(double x, void * params)
{
  double * c = (double *)params;
  return c[0] + x * (c[1] + x * (c[2] + x * c[3]));
}
static void tsimpr_group(Group & g, verif::Rng & rng, int ncases)
{
  for (int i = 0; i < ncases; i++) {
    double c[4];
    for (double & v : c) v = -2 + 4 * rng.uniform();
    double a = -2 + 4 * rng.uniform();
    int m = 2 * (1 + (int)rng.below(400)); // number of double-steps must be even: n = 2m, m even
    double h = (0.001 + 0.02 * rng.uniform());
    double b = a + 2 * m * h;
    double ex = (c[0] * b + c[1] * b * b / 2 + c[2] * b * b * b / 3 + c[3] * b * b * b * b / 4)
                - (c[0] * a + c[1] * a * a / 2 + c[2] * a * a * a / 3 + c[3] * a * a * a * a / 4);
    // the requested step need not divide the interval: the routine settles on 2m panels (m even) for any step with
    // (b-a)/h in [2m - 0.25, 2m + 1.75) and integrates with its own effective step - still exact for cubics
    static const double deltas[] = {0.0, 0.0, 0.5, 1.0, 1.5, -0.2};
    double hcall = (b - a) / (2.0 * m + deltas[i % 6]);
    g.distinct.insert(fmt("tsimpr/delta%g", deltas[i % 6]));
    double r;
    try {
      r = decay0_tsimpr(cubic, a, b, hcall, c);
    } catch (std::exception & e) {
      g.n++;
      g.fail("tsimpr|throws-on-valid-step", fmt("a=%.17g b=%.17g h=%.17g m=%d: %s", a, b, h, m, e.what()));
      continue;
    }
    double scale = 0;
    for (double v : c) scale += std::fabs(v);
    double mx = std::max(std::fabs(a), std::fabs(b));
    scale *= (b - a) * std::max(1.0, mx * mx * mx);
    double err = std::fabs(r - ex) / scale;
    g.n++;
    g.distinct.insert(fmt("m%d", m));
    if (err > g.maxerr) g.maxerr = err;
    if (!(err <= 1e-12)) {
      g.fail("tsimpr|cubic-exactness", fmt("cubic %.6g,%.6g,%.6g,%.6g on [%.6g,%.6g] h=%.6g: got %.17g exact %.17g err %.3g",
                                           c[0], c[1], c[2], c[3], a, b, h, r, ex, err));
    }
  }
}

// ---------------------------------------------------------------- tgold
struct UPar
{
  int kind;
  double x0, s, sign;
};
static double unimodal(double x, void * params)
{
  UPar * p = (UPar *)params;
  double d = x - p->x0;
  switch (p->kind) {
  case 0: return p->sign * d * d;                                    // parabola
  case 1: return -p->sign * std::exp(-d * d / (2 * p->s * p->s));    // gaussian
  case 2: return p->sign * (d < 0 ? d * d : 3 * d * d);              // skewed
  case 3: return p->sign * (std::cosh(d / p->s) - 1);                // cosh
  case 4: return p->sign * std::pow(std::fabs(d), 1.5);              // cusp-like but unimodal
  }
  return 0;
}
static void tgold_group(Group & g, verif::Rng & rng, int ncases)
{
  const double epss[] = {1e-2, 1e-3, 1e-4, 1e-5, 1e-6};
  for (int i = 0; i < ncases; i++) {
    UPar p;
    p.kind = i % 5;
    double a = -3 + 6 * rng.uniform();
    double c = a + 0.5 + 4 * rng.uniform();
    p.x0 = a + (c - a) * (0.02 + 0.96 * rng.uniform());
    p.s = 0.3 + rng.uniform();
    for (int minmax = 1; minmax <= 2; minmax++) {
      p.sign = (minmax == 1) ? 1.0 : -1.0; // minimum of +f, maximum of -f : extremum at x0 in both
      for (double eps : epss) {
        double xe, fe;
        decay0_tgold(a, 0.5 * (a + c), c, unimodal, eps, minmax, xe, fe, &p);
        double err = std::fabs(xe - p.x0);
        g.n++;
        g.distinct.insert(fmt("k%d/mm%d/eps%g", p.kind, minmax, eps));
        if (err / eps > g.maxerr) g.maxerr = err / eps;
        if (!(err <= eps) || !(fe == unimodal(xe, &p))) {
          g.fail(fmt("tgold|kind%d|minmax%d", p.kind, minmax),
                 fmt("kind %d x0=%.10g on [%.6g,%.6g] eps=%g minmax=%d: xextr=%.10g err=%.3g fextr=%.6g", p.kind, p.x0,
                     a, c, eps, minmax, xe, err, fe));
        }
      }
    }
  }
  // fine requests: uncertainties of 1e-6 .. 3e-8 of the interval (about 30-36 bisections by the golden ratio: an inaccurate section ratio lets
  // the carried-over interior point drift until the two interior points cross).  Only functions of (x - x0) without an additive offset,
  // whose values still resolve the extremum at that distance in double precision.
  for (int i = 0; i < ncases * 4; i++) {
    UPar p;
    static const int kinds[] = {0, 2, 4};
    p.kind = kinds[i % 3];
    double a = -3 + 6 * rng.uniform();
    double c = a + 0.5 + 4 * rng.uniform();
    p.x0 = a + (c - a) * (0.02 + 0.96 * rng.uniform());
    p.s = 1;
    for (int minmax = 1; minmax <= 2; minmax++) {
      p.sign = (minmax == 1) ? 1.0 : -1.0;
      for (double rel : {1e-6, 3e-7, 1e-7, 3e-8}) {
        double eps = rel * (c - a), xe, fe;
        decay0_tgold(a, 0.5 * (a + c), c, unimodal, eps, minmax, xe, fe, &p);
        double err = std::fabs(xe - p.x0);
        g.n++;
        g.distinct.insert(fmt("fine/k%d/mm%d/rel%g", p.kind, minmax, rel));
        if (err / eps > g.maxerr) g.maxerr = err / eps;
        if (!(err <= eps))
          // 3e-8 of the interval is where the 8-digit section ratio of the routine starts to show (about one request in 1e4 ends 1.1 eps
          // off on the unchanged tree): from there on it is the recorded finding, above it a violation
          g.fail(rel < 5e-8 ? std::string("tgold|ultrafine|single-precision-section-ratio") : fmt("tgold|fine|kind%d|minmax%d", p.kind, minmax),
                 fmt("kind %d x0=%.17g on [%.17g,%.17g] eps=%.3g (%g of the interval) minmax=%d: xextr=%.17g, %.3g eps away", p.kind, p.x0, a, c, eps, rel, minmax, xe, err / eps));
      }
    }
  }
  // requests beyond what the single-precision section ratio of the routine (0.61803395, as in the reference) can deliver: one key for
  // the whole class (a known finding of the pinned tree, see known_findings.txt)
  for (int i = 0; i < 40; i++) {
    UPar p;
    p.kind = 0;
    p.s = 1;
    p.sign = 1.0;
    double a = 0.0, c = 1.0;
    p.x0 = i == 0 ? 0.3 : 0.05 + 0.9 * rng.uniform();
    for (double rel : {1e-10, 1e-12}) {
      double xe, fe;
      decay0_tgold(a, 0.5, c, unimodal, rel, 1, xe, fe, &p);
      g.n++;
      g.distinct.insert(fmt("ultrafine/rel%g", rel));
      double err = std::fabs(xe - p.x0);
      if (!(err <= rel))
        g.fail("tgold|ultrafine|single-precision-section-ratio",
               fmt("(x-%.6g)^2 on [0,1] with requested uncertainty %g: returned %.17g, %.3g times the requested uncertainty away", p.x0, rel, xe, err / rel));
    }
  }
  // boundary extremum: monotone function, extremum at an end; result must be within eps of it
  for (int i = 0; i < ncases / 4 + 1; i++) {
    UPar p{0, 0, 1, 1};
    double a = rng.uniform(), c = a + 1 + rng.uniform();
    p.x0 = a - 0.5; // parabola minimum left of the interval -> min at a, max at c
    for (double eps : epss) {
      double xe, fe;
      decay0_tgold(a, 0.5 * (a + c), c, unimodal, eps, 1, xe, fe, &p);
      g.n++;
      if (!(std::fabs(xe - a) <= eps)) g.fail("tgold|boundary-min", fmt("a=%.6g c=%.6g eps=%g xe=%.10g", a, c, eps, xe));
      decay0_tgold(a, 0.5 * (a + c), c, unimodal, eps, 2, xe, fe, &p);
      g.n++;
      if (!(std::fabs(xe - c) <= eps)) g.fail("tgold|boundary-max", fmt("a=%.6g c=%.6g eps=%g xe=%.10g", a, c, eps, xe));
    }
  }
}

// ---------------------------------------------------------------- divdif
static void divdif_group(Group & g, verif::Rng & rng, int ncases)
{
  for (int i = 0; i < ncases; i++) {
    int N = 4 + (int)rng.below(45);
    int M = 1 + (int)rng.below(std::min(10, N - 1));
    int deg = (int)rng.below(M + 1); // degree <= M
    std::vector<double> coef(deg + 1);
    for (double & v : coef) v = -1 + 2 * rng.uniform();
    bool decreasing = (i % 3 == 2);
    std::vector<double> A(N), F(N);
    double x = -1 + rng.uniform();
    for (int j = 0; j < N; j++) {
      A[j] = x;
      x += 0.02 + 0.1 * rng.uniform();
    }
    if (decreasing) {
      std::vector<double> B(A.rbegin(), A.rend());
      A = B;
    }
    auto poly = [&](double t) {
      double s = 0;
      for (int k = deg; k >= 0; k--) s = s * t + coef[k];
      return s;
    };
    for (int j = 0; j < N; j++) F[j] = poly(A[j]);
    double lo = std::min(A.front(), A.back()), hi = std::max(A.front(), A.back());
    for (int q = 0; q < 12; q++) {
      double X;
      if (q == 0) X = A[0];
      else if (q == 1) X = A[N - 1];
      else if (q == 2) X = A[N / 2];
      else X = lo + (hi - lo) * rng.uniform();
      double r = decay0_divdif(F.data(), A.data(), N, X, M);
      double ex = poly(X);
      double scale = 0;
      for (double v : coef) scale += std::fabs(v);
      double err = std::fabs(r - ex) / std::max(scale, 1e-3);
      g.n++;
      g.distinct.insert(fmt("N%d/M%d/d%d/%d", N, M, deg, (int)decreasing));
      if (err > g.maxerr) g.maxerr = err;
      if (!(err <= 1e-9)) {
        g.fail(fmt("divdif|%s", decreasing ? "decreasing" : "increasing"),
               fmt("N=%d M=%d deg=%d X=%.10g: got %.17g exact %.17g err %.3g", N, M, deg, X, r, ex, err));
      }
    }
  }
}

// ---------------------------------------------------------------- rotate_zyz
typedef long double LD;
static void indep_rot(const double v[3], double phi, double theta, double psi, LD out[3])
{
  // R_z(phi) * R_y(theta) * R_z(psi) * v, written out independently
  LD c3 = cosl(psi), s3 = sinl(psi), c2 = cosl(theta), s2 = sinl(theta), c1 = cosl(phi), s1 = sinl(phi);
  LD a[3] = {c3 * v[0] - s3 * v[1], s3 * v[0] + c3 * v[1], v[2]};
  LD b[3] = {c2 * a[0] + s2 * a[2], a[1], -s2 * a[0] + c2 * a[2]};
  out[0] = c1 * b[0] - s1 * b[1];
  out[1] = s1 * b[0] + c1 * b[1];
  out[2] = b[2];
}
static void rot_group(Group & g, verif::Rng & rng, int ncases)
{
  auto dot = [](const vector3 & a, const vector3 & b) { return a.x * b.x + a.y * b.y + a.z * b.z; };
  auto triple = [](const vector3 & a, const vector3 & b, const vector3 & c) {
    return a.x * (b.y * c.z - b.z * c.y) - a.y * (b.x * c.z - b.z * c.x) + a.z * (b.x * c.y - b.y * c.x);
  };
  const double special[] = {0.0, M_PI / 2, M_PI, -M_PI, 2 * M_PI, 1e-9, M_PI - 1e-9};
  for (int i = 0; i < ncases; i++) {
    double ang[3];
    for (int k = 0; k < 3; k++) ang[k] = (rng.below(4) == 0) ? special[rng.below(7)] : (-2 * M_PI + 4 * M_PI * rng.uniform());
    vector3 v[3];
    for (auto & w : v) {
      double sc = std::pow(10.0, -3 + 6 * rng.uniform());
      if (i % 3 == 0) sc = std::pow(10.0, -30 + 60 * rng.uniform()); // a rotation is linear: the scale of the vector is irrelevant (all bounds are relative)
      w = make_vector3(sc * (-1 + 2 * rng.uniform()), sc * (-1 + 2 * rng.uniform()), sc * (-1 + 2 * rng.uniform()));
    }
    vector3 r[3];
    for (int k = 0; k < 3; k++) r[k] = rotate_zyz(v[k], ang[0], ang[1], ang[2]);
    g.n++;
    g.distinct.insert(fmt("%d", i));
    for (int k = 0; k < 3; k++) {
      double nv = std::sqrt(dot(v[k], v[k])), nr = std::sqrt(dot(r[k], r[k]));
      double e1 = std::fabs(nv - nr) / nv;
      if (e1 > g.maxerr) g.maxerr = e1;
      if (!(e1 <= 1e-13)) g.fail("rotate|norm", fmt("angles %.6g %.6g %.6g: |v|=%.17g |Rv|=%.17g", ang[0], ang[1], ang[2], nv, nr));
      double in[3] = {v[k].x, v[k].y, v[k].z};
      LD ex[3];
      indep_rot(in, ang[0], ang[1], ang[2], ex);
      double e2 = (double)(fabsl(ex[0] - r[k].x) + fabsl(ex[1] - r[k].y) + fabsl(ex[2] - r[k].z)) / nv;
      if (e2 > g.maxerr) g.maxerr = e2;
      if (!(e2 <= 1e-13)) g.fail("rotate|matrix", fmt("angles %.6g %.6g %.6g v=(%.6g,%.6g,%.6g): got (%.10g,%.10g,%.10g) want (%.10Lg,%.10Lg,%.10Lg)",
                                                      ang[0], ang[1], ang[2], in[0], in[1], in[2], r[k].x, r[k].y, r[k].z, ex[0], ex[1], ex[2]));
      // inverse: (-psi,-theta,-phi)
      vector3 back = rotate_zyz(r[k], -ang[2], -ang[1], -ang[0]);
      double e3 = (std::fabs(back.x - v[k].x) + std::fabs(back.y - v[k].y) + std::fabs(back.z - v[k].z)) / nv;
      if (!(e3 <= 1e-13)) g.fail("rotate|inverse", fmt("angles %.6g %.6g %.6g: err %.3g", ang[0], ang[1], ang[2], e3));
    }
    for (int a = 0; a < 3; a++)
      for (int b = a + 1; b < 3; b++) {
        double d0 = dot(v[a], v[b]), d1 = dot(r[a], r[b]);
        double sc = std::sqrt(dot(v[a], v[a]) * dot(v[b], v[b]));
        if (!(std::fabs(d0 - d1) <= 1e-13 * sc)) g.fail("rotate|dot", fmt("angles %.6g %.6g %.6g: %.17g vs %.17g", ang[0], ang[1], ang[2], d0, d1));
      }
    double t0 = triple(v[0], v[1], v[2]), t1 = triple(r[0], r[1], r[2]);
    double sc = std::sqrt(dot(v[0], v[0]) * dot(v[1], v[1]) * dot(v[2], v[2]));
    if (!(std::fabs(t0 - t1) <= 1e-12 * sc)) g.fail("rotate|triple", fmt("angles %.6g %.6g %.6g: %.17g vs %.17g", ang[0], ang[1], ang[2], t0, t1));
    // composition about a shared axis: R(phi,0,0) R(phi2,0,0) = R(phi+phi2,0,0); R(0,th,0)R(0,th2,0) = R(0,th+th2,0)
    double phi2 = -M_PI + 2 * M_PI * rng.uniform();
    vector3 c1 = rotate_zyz(rotate_zyz(v[0], phi2), ang[0]);
    vector3 c2 = rotate_zyz(v[0], ang[0] + phi2);
    double nv = std::sqrt(dot(v[0], v[0]));
    if (!((std::fabs(c1.x - c2.x) + std::fabs(c1.y - c2.y) + std::fabs(c1.z - c2.z)) <= 1e-13 * nv * 10)) g.fail("rotate|compose-z", "z composition");
    c1 = rotate_zyz(rotate_zyz(v[0], 0, phi2, 0), 0, ang[1], 0);
    c2 = rotate_zyz(v[0], 0, ang[1] + phi2, 0);
    if (!((std::fabs(c1.x - c2.x) + std::fabs(c1.y - c2.y) + std::fabs(c1.z - c2.z)) <= 1e-13 * nv * 10)) g.fail("rotate|compose-y", "y composition");
    // documented meaning: the z unit vector goes to direction (theta, phi)
    vector3 ez = make_vector3(0, 0, 1);
    vector3 d = rotate_zyz(ez, ang[0], ang[1], ang[2]);
    double wx = std::sin(ang[1]) * std::cos(ang[0]), wy = std::sin(ang[1]) * std::sin(ang[0]), wz = std::cos(ang[1]);
    if (!((std::fabs(d.x - wx) + std::fabs(d.y - wy) + std::fabs(d.z - wz)) <= 1e-13)) g.fail("rotate|z-axis-image", fmt("angles %.6g %.6g %.6g", ang[0], ang[1], ang[2]));
  }
}

// ---------------------------------------------------------------- fermi
// independent ln Gamma(z) for complex z, Re z > 0: upward recurrence shift + Stirling series
static std::complex<LD> lngamma_indep(std::complex<LD> z)
{
  std::complex<LD> shift = 0;
  while (std::abs(z) < 24.0L) {
    shift += std::log(z);
    z += 1.0L;
  }
  static const LD B[] = {1.0L / 6, -1.0L / 30, 1.0L / 42, -1.0L / 30, 5.0L / 66, -691.0L / 2730, 7.0L / 6, -3617.0L / 510};
  std::complex<LD> s = (z - 0.5L) * std::log(z) - z + 0.5L * std::log(2 * M_PIl);
  std::complex<LD> zi = 1.0L / z, z2 = zi * zi, zp = zi;
  for (int k = 1; k <= 8; k++) {
    s += B[k - 1] / (LD)(2 * k * (2 * k - 1)) * zp;
    zp *= z2;
  }
  return s - shift;
}
static double fermi_indep(double Z, double E)
{
  LD e = E;
  if (e < 50.e-6L) e = 50.e-6L;
  LD alfaz = (LD)Z / 137.036L;
  LD w = e / (LD)decay0_emass() + 1.0L;
  LD p = sqrtl(w * w - 1.0L);
  LD y = alfaz * w / p;
  LD gq = sqrtl(1.0L - alfaz * alfaz);
  LD lnr = lngamma_indep(std::complex<LD>(gq, y)).real();
  return (double)(powl(p, 2 * gq - 2) * expl(M_PIl * y + 2 * lnr));
}
static void fermi_group(Group & g, verif::Rng & rng, int nrand)
{
  std::vector<std::pair<double, double>> pts;
  for (int Z = -92; Z <= 92; Z++) {
    for (int j = 0; j <= 24; j++) {
      double E = 5e-5 * std::pow(10.0, j * (std::log10(10.0 / 5e-5) / 24));
      pts.push_back({(double)Z, E});
    }
    pts.push_back({(double)Z, 1e-6}); // below the 50 eV floor
  }
  for (int i = 0; i < nrand; i++) pts.push_back({std::floor(-92 + 185 * rng.uniform()), std::pow(10.0, -4.3 + 5.3 * rng.uniform())});
  for (auto ze : pts) {
    double a = decay0_fermi(ze.first, ze.second);
    double b = fermi_indep(ze.first, ze.second);
    double err = std::fabs(a - b) / std::fabs(b);
    g.n++;
    g.distinct.insert(fmt("%g/%.3g", ze.first, ze.second));
    if (err > g.maxerr) g.maxerr = err;
    // the closed form is exp(X) with |X| up to ~300 evaluated in binary64 (GSL's lngamma_complex is good to
    // ~1e-13 relative of X), so the attainable relative accuracy is conditioned by |ln F|
    double tol = 1e-12 * std::max(1.0, std::fabs(std::log(std::fabs(b))));
    if (!(err <= tol) || !(a > 0)) {
      g.fail(fmt("fermi|Z%s", ze.first < 0 ? "neg" : (ze.first > 0 ? "pos" : "zero")),
             fmt("Z=%g E=%.10g: decay0_fermi=%.17g independent=%.17g relerr %.3g", ze.first, ze.second, a, b, err));
    }
  }
}

int main(int argc, char ** argv)
{
  uint64_t seed = argc > 1 ? strtoull(argv[1], 0, 10) : 1;
  int scale = argc > 2 ? atoi(argv[2]) : 1; // 1 quick, 10 thorough
  verif::Rng rng(seed, 16);
  {
    Group g; g.name = "dgmlt1"; dgmlt_group(g, "dgmlt1", call1, rng, 4 * scale); g.emit();
  }
  {
    Group g; g.name = "dgmlt2"; dgmlt_group(g, "dgmlt2", call2, rng, 4 * scale); g.emit();
  }
  {
    Group g; g.name = "nested_panels"; nested_group(g, rng, 300 * scale); g.emit();
  }
  {
    Group g; g.name = "gauss"; gauss_group(g, rng, 120 * scale); g.emit();
  }
  {
    Group g; g.name = "tsimpr"; tsimpr_group(g, rng, 2000 * scale); g.emit();
  }
  {
    Group g; g.name = "tgold"; tgold_group(g, rng, 200 * scale); g.emit();
  }
  {
    Group g; g.name = "divdif"; divdif_group(g, rng, 1000 * scale); g.emit();
  }
  {
    Group g; g.name = "rotate_zyz"; rot_group(g, rng, 5000 * scale); g.emit();
  }
  {
    Group g; g.name = "fermi"; fermi_group(g, rng, 5000 * scale); g.emit();
  }
  return 0;
}
