// C05 part 2: catalogues. Prints what the library itself publishes (list files through the real
// accessors, mode table) and which candidate names the generator accepts.
// usage: c05_catalogue <candidates file>     lines: B <name> | D <name>
#include <fstream>
#include <unistd.h>
#include <sstream>

#include <bxdecay0/bb_utils.h>
#include <bxdecay0/decay0_generator.h>

#include "diffcore_port.h"

using namespace verif;

static bool accepts(bool dbd, const std::string & name, int mode, std::string & why)
{
  bxdecay0::decay0_generator g;
  Tape t(1, 1);
  try {
    if (dbd) {
      g.set_decay_category(bxdecay0::decay0_generator::DECAY_CATEGORY_DBD);
      g.set_decay_isotope(name);
      g.set_decay_dbd_level(0);
      g.set_decay_dbd_mode((bxdecay0::dbd_mode_type)mode);
    } else {
      g.set_decay_category(bxdecay0::decay0_generator::DECAY_CATEGORY_BACKGROUND);
      g.set_decay_isotope(name);
    }
    g.initialize(t);
    // accepted means: initialize() returns.  (A name that initialises and then yields nothing is accepted all the same - and wrong.)
    bxdecay0::event e;
    g.shoot(t, e);
    if (e.get_particles().empty()) why = "EMPTY-EVENTS";
    return true;
  } catch (std::exception & x) {
    why = x.what();
    return false;
  }
}

int main(int argc, char ** argv)
{
  if (argc < 2) return 2;
  fprintf(OUT, "{\"lis_background\":[");
  bool first = true;
  for (auto & s : bxdecay0::background_isotopes()) {
    fprintf(OUT, "%s%s", first ? "" : ",", jstr(s).c_str());
    first = false;
  }
  fprintf(OUT, "],\"lis_dbd\":[");
  first = true;
  for (auto & s : bxdecay0::dbd_isotopes()) {
    fprintf(OUT, "%s%s", first ? "" : ",", jstr(s).c_str());
    first = false;
  }
  fprintf(OUT, "],\"modes\":[");
  first = true;
  for (auto & kv : bxdecay0::dbd_modes()) {
    const auto & r = kv.second;
    std::string back_label = bxdecay0::dbd_mode_label(kv.first);
    int back_mode = (int)bxdecay0::dbd_mode_from_label(r.unique_label);
    fprintf(OUT, "%s{\"mode\":%d,\"record_mode\":%d,\"label\":%s,\"legacy\":%d,\"label_of_mode\":%s,\"mode_of_label\":%d,\"legacy_of_mode\":%d,\"esum\":%s}", first ? "" : ",",
            (int)kv.first, (int)r.dbd_mode, jstr(r.unique_label).c_str(), (int)r.legacy_modebb, jstr(back_label).c_str(), back_mode,
            (int)bxdecay0::dbd_legacy_mode(kv.first), bxdecay0::dbd_supports_esum_range(kv.first) ? "true" : "false");
    first = false;
  }
  fprintf(OUT, "],\"accepted\":[");
  first = true;
  std::ifstream in(argv[1]);
  std::string line;
  int fd2 = dup(2);
  (void)fd2;
  while (std::getline(in, line)) {
    std::istringstream ls(line);
    std::string kind, name;
    ls >> kind;
    if (line.size() < 3) continue;
    name = line.substr(2); // the rest of the line, leading blanks included (they are part of the candidate)
    if (name.empty()) continue;
    bool dbd = kind == "D";
    std::string why;
    bool ok = false;
    if (dbd) {
      for (int m : {1, 12, 11, 10}) {
        if (accepts(true, name, m, why)) {
          ok = true;
          break;
        }
      }
    } else {
      ok = accepts(false, name, 0, why);
    }
    fprintf(OUT, "%s{\"kind\":%s,\"name\":%s,\"accepted\":%s,\"why\":%s}", first ? "" : ",", jstr(kind).c_str(), jstr(name).c_str(), ok ? "true" : "false",
            jstr(why.substr(0, 120)).c_str());
    first = false;
  }
  fprintf(OUT, "]}\n");
  return 0;
}
