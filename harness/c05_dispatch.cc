// C05 part 1: a published name selects exactly its own scheme(s).
// The event from genbbsub(name) must be bit-identical to the event obtained by calling the scheme
// functions named in the spec (derived by the check from the README, not from genbbsub.cc) directly.
// usage: c05_dispatch <specfile> <seed> <n_events>
//   B <name> <fn1> [<fn2> ...]                 background: parent scheme, then daughters (unless an alpha was emitted)
//   D <iso> <level> <mode> <levelE keV> <lowfn|-> [<fn> ..] double beta: bb + <daughter>low(levelE) [+ low(0) and chain for the 4 chain entries]
//     (levelE comes from the published tables, not from genbbsub)
#include <cstdlib>
#include <fstream>
#include <functional>
#include <sstream>

#include <bxdecay0/bb.h>
#include <bxdecay0/genbbsub.h>
#include <bxdecay0/decay0_generator.h>

#include "diffcore_port.h"
#include "c05_table.inc" // generated at check time from /repo/bxdecay0/*.h: includes + registry()

using namespace verif;

int main(int argc, char ** argv)
{
  if (argc < 4) return 2;
  uint64_t seed = strtoull(argv[2], 0, 10);
  long nev = atol(argv[3]);
  std::ifstream in(argv[1]);
  std::string line;
  Registry reg = registry();
  while (std::getline(in, line)) {
    if (line.empty()) continue;
    std::istringstream ls(line);
    std::string kind, name;
    ls >> kind >> name;
    std::map<std::string, Mismatch> mm;
    long events = 0;
    std::unordered_set<uint64_t> sigs;
    std::string sample;
    auto rec = [&](const std::string & key, const std::string & detail, Tape & tape, size_t d, const bxdecay0::event & a, const bxdecay0::event & b) {
      Mismatch & x = mm[key];
      if (x.count++ == 0) {
        x.key = key;
        x.detail = detail;
        x.tape = tape.prefix_json(std::min<size_t>(d, 60));
        x.ref = event_json(b);  // direct composition
        x.port = event_json(a); // through genbbsub
      }
    };
    Tape tape;
    if (kind == "B") {
      std::vector<std::string> fns;
      std::string f;
      while (ls >> f) fns.push_back(f);
      std::string lab = "bkg/" + name;
      bool missing = false;
      for (auto & fn : fns)
        if (!reg.scheme.count(fn)) {
          mm[lab + "|no-scheme-function"].key = lab + "|no-scheme-function";
          mm[lab + "|no-scheme-function"].detail = "no exported scheme function '" + fn + "'";
          mm[lab + "|no-scheme-function"].count = 1;
          missing = true;
        }
      bxdecay0::bbpars pars;
      int ier = 0;
      bxdecay0::event e0;
      bxdecay0::genbbsub(tape, e0, bxdecay0::GENBBSUB_I2BBS_BACKGROUND, name, -1, -1, bxdecay0::GENBBSUB_ISTART_INIT, ier, pars);
      if (ier != 0) {
        mm[lab + "|refused"].key = lab + "|refused";
        mm[lab + "|refused"].detail = "genbbsub refuses the published name";
        mm[lab + "|refused"].count = 1;
        missing = true;
      }
      uint64_t stream = (hash_str(lab) & 0xffffff) << 24;
      for (long i = 0; i < nev && !missing; i++) {
        tape.reseed(seed, stream++);
        if (i % 4 == 1) tape.pin(i % 7, (i % 8 < 4) ? 1e-9 : 1 - 1e-9); // push the leading branch draws to both ends now and then
        bxdecay0::event a, b;
        tape.rewind();
        bxdecay0::genbbsub(tape, a, bxdecay0::GENBBSUB_I2BBS_BACKGROUND, name, -1, -1, bxdecay0::GENBBSUB_ISTART_GENERATE, ier, pars);
        size_t da = tape.pos;
        tape.rewind();
        double td = 0;
        reg.scheme[fns[0]](tape, b, 0., td);
        for (size_t k = 1; k < fns.size(); k++) {
          bool alpha = false;
          for (auto & p : b.get_particles())
            if (p.is_alpha()) alpha = true;
          if (alpha) break; // the parent took its alpha branch: the beta-daughter does not follow
          size_t n0 = b.get_particles().size();
          double td1 = 0;
          reg.scheme[fns[k]](tape, b, 0., td1);
          b.shift_particles_time(td1, (int)n0);
        }
        size_t db = tape.pos;
        b.set_generator(name);
        b.set_time(0.0);
        events++;
        sigs.insert(hash_str(signature(b)));
        if (i < 3) {
          // the third documented start mode, "initialise and generate one event" in one call on a fresh parameter block, is the
          // initialisation followed by one generation
          bxdecay0::bbpars p0;
          bxdecay0::event c;
          int ier0 = 0;
          tape.rewind();
          bxdecay0::genbbsub(tape, c, bxdecay0::GENBBSUB_I2BBS_BACKGROUND, name, -1, -1, bxdecay0::GENBBSUB_ISTART_INIT_GENERATE_ONE, ier0, p0);
          if (ier0 != 0 || tape.pos != da || !events_bit_identical(a, c))
            rec(lab + "|start-mode", fmt("genbbsub('%s', INIT_GENERATE_ONE) gives ier=%d, %zu deviates, %zu particles; INIT then GENERATE gives %zu deviates, %zu particles", name.c_str(), ier0,
                                         tape.pos, c.get_particles().size(), da, a.get_particles().size()),
                tape, std::max(da, tape.pos), a, c);
        }
        if (da != db || !events_bit_identical(a, b))
          rec(lab + "|dispatch", fmt("genbbsub('%s') consumed %zu deviates and gives %zu particles; its own scheme(s) consume %zu and give %zu", name.c_str(), da,
                                     a.get_particles().size(), db, b.get_particles().size()),
              tape, std::max(da, db), a, b);
        // independent of the library's own dispatch guard: 212Bi / 214Bi decay either by alpha (daughter Tl, not part of the published chain) or by
        // beta followed by the alpha of the short-lived 212Po / 214Po - every event of the published composite has exactly one alpha
        if (name == "Bi212+Po212" || name == "Bi214+Po214") {
          int nalpha = 0;
          for (auto & p : a.get_particles())
            if (p.is_alpha()) nalpha++;
          if (nalpha != 1)
            rec(lab + "|composite-alpha-count", fmt("an event of '%s' carries %d alpha particles: the parent's alpha branch and the polonium daughter's decay exclude each other and one of them always occurs",
                                                    name.c_str(), nalpha),
                tape, da, a, b);
        }
        if (sample.empty() && i == 2) sample = "{\"tape\":" + tape.prefix_json(std::min<size_t>(da, 8)) + ",\"event\":" + event_json(a) + "}";
      }
      // the porcelain generator, once clean and once carrying stray double-beta settings (level, mode 20 / a random mode, window) that a
      // background request has no use for - an application may fill every field from one record: same scheme, bit-identical events
      if (!missing) {
        for (int stray = 0; stray < 3; stray++) {
          try {
            bxdecay0::decay0_generator clean, dirty;
            for (bxdecay0::decay0_generator * g : {&clean, &dirty}) {
              g->set_decay_category(bxdecay0::decay0_generator::DECAY_CATEGORY_BACKGROUND);
              g->set_decay_isotope(name);
            }
            dirty.set_decay_dbd_level(stray == 0 ? 0 : 3);
            dirty.set_decay_dbd_mode(stray == 0 ? bxdecay0::DBDMODE_20 : (bxdecay0::dbd_mode_type)(1 + (hash_str(name) + stray) % 24));
            if (stray == 2) dirty.set_decay_dbd_esum_range(0.5, 1.5);
            Tape ta(seed, stream + 7), tb(seed, stream + 7);
            clean.initialize(ta);
            dirty.initialize(tb);
            for (int i = 0; i < 40; i++) {
              bxdecay0::event ea, eb;
              ta.reseed(seed, stream + 100 + i);
              tb.reseed(seed, stream + 100 + i);
              clean.shoot(ta, ea);
              dirty.shoot(tb, eb);
              events++;
              if (ta.pos != tb.pos || !events_bit_identical(ea, eb))
                rec(lab + "|stray-dbd-settings", "a background generator that also carries double-beta settings gives other events than a clean one", ta, ta.pos, eb, ea);
            }
          } catch (std::exception & x) {
            Mismatch & m = mm[lab + "|stray-dbd-settings"];
            if (m.count++ == 0) {
              m.key = lab + "|stray-dbd-settings";
              m.detail = std::string("a background generator that also carries double-beta settings (level/mode") + (stray == 2 ? "/window" : "") + ") is refused: " + x.what();
            }
          }
        }
      }
      fprintf(OUT, "{\"config\":%s,\"events\":%ld,\"distinct_signatures\":%zu,\"sample\":%s,", jstr(lab).c_str(), events, sigs.size(), sample.empty() ? "null" : sample.c_str());
      emit_mismatches(OUT, "mismatches", mm);
      fprintf(OUT, "}\n");
    } else {
      int level, mode, levelE;
      std::string low;
      ls >> level >> mode >> levelE >> low;
      std::vector<std::string> chain;
      std::string f;
      while (ls >> f) chain.push_back(f);
      std::string lab = "dbd/" + name + "/L" + std::to_string(level) + "/m" + std::to_string(mode);
      bxdecay0::bbpars pars;
      int ier = 0;
      bxdecay0::event e0;
      bool skip = false;
      bxdecay0::genbbsub(tape, e0, bxdecay0::GENBBSUB_I2BBS_DBD, name, level, mode, bxdecay0::GENBBSUB_ISTART_INIT, ier, pars);
      if (ier != 0) {
        mm[lab + "|refused"].key = lab + "|refused";
        mm[lab + "|refused"].detail = "genbbsub refuses a configuration the published tables allow";
        mm[lab + "|refused"].count = 1;
        skip = true;
      }
      if (!skip && (pars.levelE != levelE || std::fabs(pars.Edlevel * 1000.0 - levelE) > 1e-6)) {
        std::string k = lab + "|level-energy";
        mm[k].key = k;
        mm[k].detail = fmt("genbbsub selects a daughter level at %d keV (Edlevel %.6f MeV); the published level %d of %s is at %d keV", pars.levelE, pars.Edlevel, level, name.c_str(), levelE);
        mm[k].count = 1;
      }
      if (low != "-" && !reg.low.count(low)) {
        mm[lab + "|no-deexcitation-function"].key = lab + "|no-deexcitation-function";
        mm[lab + "|no-deexcitation-function"].detail = "daughter has excited levels but no exported function '" + low + "'";
        mm[lab + "|no-deexcitation-function"].count = 1;
        skip = true;
      }
      for (auto & fn : chain)
        if (!reg.scheme.count(fn) ) { skip = true; }
      uint64_t stream = (hash_str(lab) & 0xffffff) << 24;
      for (long i = 0; i < nev && !skip; i++) {
        tape.reseed(seed, stream++);
        bxdecay0::event a, b;
        tape.rewind();
        bxdecay0::genbbsub(tape, a, bxdecay0::GENBBSUB_I2BBS_DBD, name, level, mode, bxdecay0::GENBBSUB_ISTART_GENERATE, ier, pars);
        size_t da = tape.pos;
        tape.rewind();
        bxdecay0::bbpars p2 = pars; // same initialised state
        bxdecay0::decay0_bb(tape, b, &p2);
        if (low != "-") reg.low[low](tape, b, chain.empty() ? levelE : 0);
        for (auto & fn : chain) {
          size_t n0 = b.get_particles().size();
          double td1 = 0;
          reg.scheme[fn](tape, b, 0., td1);
          b.shift_particles_time(td1, (int)n0);
        }
        size_t db = tape.pos;
        b.set_generator(name);
        b.set_time(0.0);
        events++;
        sigs.insert(hash_str(signature(b)));
        if (i < 3) {
          bxdecay0::bbpars p0;
          bxdecay0::event c;
          int ier0 = 0;
          tape.rewind();
          bxdecay0::genbbsub(tape, c, bxdecay0::GENBBSUB_I2BBS_DBD, name, level, mode, bxdecay0::GENBBSUB_ISTART_INIT_GENERATE_ONE, ier0, p0);
          if (ier0 != 0 || tape.pos != da || !events_bit_identical(a, c))
            rec(lab + "|start-mode", fmt("genbbsub DBD '%s' with INIT_GENERATE_ONE gives ier=%d, %zu deviates, %zu particles; INIT then GENERATE gives %zu deviates, %zu particles", name.c_str(),
                                         ier0, tape.pos, c.get_particles().size(), da, a.get_particles().size()),
                tape, std::max(da, tape.pos), a, c);
        }
        if (da != db || !events_bit_identical(a, b))
          rec(lab + "|dispatch", fmt("genbbsub DBD '%s' consumed %zu deviates / %zu particles; bb + %s%s consume %zu / %zu", name.c_str(), da, a.get_particles().size(),
                                     low.c_str(), chain.empty() ? "" : " + chain", db, b.get_particles().size()),
              tape, std::max(da, db), a, b);
      }
      fprintf(OUT, "{\"config\":%s,\"events\":%ld,\"distinct_signatures\":%zu,\"sample\":null,", jstr(lab).c_str(), events, sigs.size());
      emit_mismatches(OUT, "mismatches", mm);
      fprintf(OUT, "}\n");
    }
    fflush(OUT);
  }
  return 0;
}
