// C07: an event depends only on configuration and deviates, never on history or reuse.
// usage: c07_history <specfile> <seed> <n_tapes> <shard> <nshards>
//   lines:  B <name>   |   D <name> <level> <mode> <window 0|1> <e1> <e2>
// For each configuration and tape T the canonical event (fresh generator, fresh event, first shot) is compared
// bit for bit with the event obtained after each of a set of histories.
#include <cstdlib>
#include <fstream>
#include <memory>
#include <sstream>

#include <bxdecay0/bb_utils.h>
#include <bxdecay0/decay0_generator.h>
#include <bxdecay0/event.h>
#include <bxdecay0/mdl_event_op.h>

#include "diffcore_port.h"

using namespace verif;
using bxdecay0::decay0_generator;

struct Cfg
{
  char kind = 'B';
  std::string name;
  int level = 0, mode = 0;
  bool window = false;
  double e1 = 0, e2 = 0;
  std::string label() const
  {
    if (kind == 'B') return "bkg/" + name;
    return "dbd/" + name + "/L" + std::to_string(level) + "/m" + std::to_string(mode) + (window ? fmt("/w%.6g-%.6g", e1, e2) : "");
  }
};

static void configure(decay0_generator & g, const Cfg & c)
{
  if (c.kind == 'B') {
    g.set_decay_category(decay0_generator::DECAY_CATEGORY_BACKGROUND);
    g.set_decay_isotope(c.name);
  } else {
    g.set_decay_category(decay0_generator::DECAY_CATEGORY_DBD);
    g.set_decay_isotope(c.name);
    g.set_decay_dbd_level(c.level);
    g.set_decay_dbd_mode((bxdecay0::dbd_mode_type)c.mode);
    if (c.window) g.set_decay_dbd_esum_range(c.e1, c.e2);
  }
}

static void junk_fill(bxdecay0::event & e, Rng & r, int n)
{
  e.set_generator("junk-" + std::to_string(r.below(1000)));
  e.set_time(r.uniform() * 1e3);
  static const bxdecay0::particle_code codes[] = {bxdecay0::GAMMA, bxdecay0::POSITRON, bxdecay0::ELECTRON, bxdecay0::ALPHA};
  for (int i = 0; i < n; i++) {
    bxdecay0::particle p;
    p.set_code(codes[r.below(4)]);
    p.set_time(r.uniform() * 10);
    p.set_momentum(r.uniform() * 5 - 2.5, r.uniform() * 5 - 2.5, r.uniform() * 5 - 2.5);
    e.add_particle(p);
  }
}

static std::vector<Cfg> others; // pool of cheap configurations for "other instance" activity

static void other_activity(Rng & r, uint64_t seed)
{
  // another instance: configure, maybe fail, initialise, shoot, reset, destroy
  int what = (int)r.below(6);
  try {
    std::unique_ptr<decay0_generator> g(new decay0_generator);
    Tape t(seed, 0xABC000 + r.below(4096));
    if (what == 0) { // unknown isotope: failed initialisation
      g->set_decay_category(decay0_generator::DECAY_CATEGORY_BACKGROUND);
      g->set_decay_isotope("Xx99");
      g->initialize(t);
    } else if (what == 1) { // gA request (data may or may not be there)
      g->set_decay_category(decay0_generator::DECAY_CATEGORY_DBD);
      g->set_decay_isotope("Mo100");
      g->set_decay_dbd_level(0);
      g->set_decay_dbd_mode(bxdecay0::DBDMODE_2NUBB_GA_G0);
      g->initialize(t);
      bxdecay0::event e;
      g->shoot(t, e);
    } else {
      const Cfg & c = others[r.below(others.size())];
      configure(*g, c);
      g->initialize(t);
      bxdecay0::event e;
      int n = 1 + (int)r.below(5);
      for (int i = 0; i < n; i++) g->shoot(t, e);
      if (what == 2) g->reset();
      if (what == 3) {
        g->reset();
        configure(*g, others[r.below(others.size())]);
        g->initialize(t);
        g->shoot(t, e);
      }
    }
  } catch (std::exception &) {
  }
}

int main(int argc, char ** argv)
{
  if (argc < 6) return 2;
  uint64_t seed = strtoull(argv[2], 0, 10);
  long ntapes = atol(argv[3]);
  int shard = atoi(argv[4]), nshards = atoi(argv[5]);
  std::vector<Cfg> cfgs;
  {
    std::ifstream in(argv[1]);
    std::string line;
    while (std::getline(in, line)) {
      if (line.empty()) continue;
      std::istringstream ls(line);
      Cfg c;
      std::string k;
      ls >> k >> c.name;
      c.kind = k[0];
      if (c.kind == 'D') {
        int w;
        ls >> c.level >> c.mode >> w >> c.e1 >> c.e2;
        c.window = w != 0;
      }
      cfgs.push_back(c);
    }
  }
  for (auto & c : cfgs)
    if (c.kind == 'B' || c.mode == 1 || c.mode == 12 || c.mode == 3) others.push_back(c);
  if (others.empty()) others = cfgs;

  for (size_t ci = 0; ci < cfgs.size(); ci++) {
    if ((int)(ci % nshards) != shard) continue;
    const Cfg & c = cfgs[ci];
    std::string lab = c.label();
    std::map<std::string, Mismatch> mm;
    long evals = 0;
    std::set<std::string> kinds_seen;
    Rng r(seed, hash_str(lab));
    std::string init_err;
    // the generator under test, initialised with some tape
    auto fresh = [&](uint64_t init_stream) -> std::unique_ptr<decay0_generator> {
      std::unique_ptr<decay0_generator> g(new decay0_generator);
      configure(*g, c);
      Tape ti(seed, init_stream);
      g->initialize(ti);
      return g;
    };
    std::unique_ptr<decay0_generator> probe;
    try {
      probe = fresh(1);
    } catch (std::exception & x) {
      init_err = x.what();
    }
    if (!init_err.empty()) {
      fprintf(OUT, "{\"config\":%s,\"accepted\":false,\"init_error\":%s}\n", jstr(lab).c_str(), jstr(init_err).c_str());
      continue;
    }
    probe.reset();
    std::string sample;
    for (long ti = 0; ti < ntapes; ti++) {
      Tape T(seed, (hash_str(lab) & 0xffffff) * 4096 + ti);
      if (ti % 3 == 1) T.pin(r.below(6), r.below(2) ? 1e-9 : 1 - 1e-9);
      // canonical: fresh generator, fresh event, first shot
      bxdecay0::event E0;
      size_t d0;
      {
        auto g = fresh(1);
        T.rewind();
        g->shoot(T, E0);
        d0 = T.pos;
      }
      auto check = [&](const std::string & kind, const std::string & detail, const bxdecay0::event & E, size_t d) {
        evals++;
        kinds_seen.insert(kind);
        if (d != d0 || !events_bit_identical(E0, E)) {
          Mismatch & x = mm[lab + "|" + kind];
          if (x.count++ == 0) {
            x.key = lab + "|" + kind;
            x.detail = detail + fmt(" (draws %zu vs canonical %zu)", d, d0);
            x.tape = T.prefix_json(std::min<size_t>(std::max(d, d0), 50));
            x.ref = event_json(E0);
            x.port = event_json(E);
          }
        }
      };
      // H1: k prior shots with other tapes
      for (int k : {1, 7, (ti == 0 ? 1000 : 3)}) {
        auto g = fresh(1);
        bxdecay0::event e;
        Tape other(seed, 0x777000 + ti * 8 + k);
        for (int i = 0; i < k; i++) g->shoot(other, e);
        bxdecay0::event E;
        T.rewind();
        g->shoot(T, E);
        check("prior-shots", fmt("after %d prior shots into another event", k), E, T.pos);
        // H2: the same event object reused for the prior shots
        T.rewind();
        g->shoot(T, e);
        check("reused-event", fmt("event object reused after %d shots", k + 1), e, T.pos);
      }
      // H3: pre-filled event
      for (int n : {0, 1, 2, 5, 17, 100, 150}) {
        auto g = fresh(1);
        bxdecay0::event E;
        junk_fill(E, r, n);
        T.rewind();
        g->shoot(T, E);
        check("prefilled-event", fmt("event pre-filled with %d junk particles", n), E, T.pos);
      }
      // H4: capacity forced
      for (int cap : {1, 2, 3, 4, 5, 6, 7, 8, 9, 16, 200}) {
        auto g = fresh(1);
        bxdecay0::event E;
        E.grab_particles().reserve(cap);
        T.rewind();
        g->shoot(T, E);
        check("reserved-capacity", fmt("event with capacity %d", cap), E, T.pos);
      }
      // H5: moved-from event
      {
        auto g = fresh(1);
        bxdecay0::event a;
        junk_fill(a, r, 9);
        bxdecay0::event b(std::move(a));
        T.rewind();
        g->shoot(T, a);
        check("moved-from-event", "moved-from event object", a, T.pos);
      }
      // H6/H7: other instances in between
      {
        auto g = fresh(1);
        int n = 1 + (int)r.below(4);
        for (int i = 0; i < n; i++) other_activity(r, seed);
        bxdecay0::event E;
        T.rewind();
        g->shoot(T, E);
        check("other-instances", fmt("%d other instances created/initialised/shot/reset/destroyed in between", n), E, T.pos);
        other_activity(r, seed);
        T.rewind();
        g->shoot(T, E);
        check("other-instances", "second shot after more foreign activity", E, T.pos);
      }
      // H8: reset + identical re-configuration
      {
        auto g = fresh(1);
        bxdecay0::event e;
        Tape other(seed, 0x888000 + ti);
        g->shoot(other, e);
        g->reset();
        configure(*g, c);
        Tape ti2(seed, 2);
        g->initialize(ti2);
        bxdecay0::event E;
        T.rewind();
        g->shoot(T, E);
        check("reset-reinit", "reset() and identical re-configuration", E, T.pos);
      }
      // H8b: an abandoned configuration (window, registered operation; never initialised, or an initialisation that raised),
      // then reset() and the real configuration
      for (int variant = 0; variant < 2; variant++) {
        std::unique_ptr<decay0_generator> g(new decay0_generator);
        g->set_decay_category(decay0_generator::DECAY_CATEGORY_DBD);
        g->set_decay_isotope("Mo100");
        g->set_decay_dbd_level(0);
        g->set_decay_dbd_mode(bxdecay0::DBDMODE_1);
        g->set_decay_dbd_esum_range(2.0, 2.5);
        auto op = std::make_shared<bxdecay0::momentum_direction_lock_event_op>();
        op->set(bxdecay0::INVALID_PARTICLE, 0, 0.0, 0.0, 1.0, 0.2, false);
        g->add_operation(op);
        if (variant == 1) {
          try {
            Tape tj(seed, 6);
            g->initialize(tj); // raises: mode 1 does not support an energy range
          } catch (std::exception &) {
          }
        }
        g->reset();
        configure(*g, c);
        Tape ti2(seed, 2);
        g->initialize(ti2);
        bxdecay0::event E;
        T.rewind();
        g->shoot(T, E);
        check("reset-before-initialize", variant ? "abandoned configuration whose initialize() raised, reset(), real configuration" : "abandoned configuration (never initialised), reset(), real configuration", E, T.pos);
      }
      // H8c: an earlier life as ANOTHER configuration (the next one of the list: for a gA request another gA table, for a windowed
      // request another window, ...), initialised and shot, then reset() and the real configuration
      if (ti < 2 && cfgs.size() > 1) {
        const Cfg & prev = cfgs[(ci + 1 + (size_t)ti) % cfgs.size()];
        std::unique_ptr<decay0_generator> g(new decay0_generator);
        bool lived = true;
        try {
          configure(*g, prev);
          Tape tp(seed, 9);
          g->initialize(tp);
          bxdecay0::event e;
          g->shoot(tp, e);
        } catch (std::exception &) {
          lived = false; // the earlier life may itself be a refused request: still a history
        }
        g->reset();
        configure(*g, c);
        Tape ti2(seed, 2);
        g->initialize(ti2);
        bxdecay0::event E;
        T.rewind();
        g->shoot(T, E);
        check("earlier-life-as-another-configuration", std::string("earlier life as ") + prev.label() + (lived ? "" : " (refused)") + ", reset(), real configuration", E, T.pos);
      }
      // H12: a user-defined post-generation operation that appends a copy of the event's own first particle (add_particle is handed a
      // reference into the very list it appends to - legitimate for a container), shot into a fresh event and into an event object whose
      // capacity equals the number of particles the shot produces (a copy of the expected result): the list is then full when the
      // operation appends
      if (ti < 3) {
        struct EchoFirst : public bxdecay0::i_event_op
        {
          std::string name() const override { return "echo-first"; }
          void operator()(bxdecay0::i_random &, bxdecay0::event & ev) override
          {
            if (!ev.get_particles().empty()) ev.add_particle(ev.get_particles().front());
          }
          void smart_dump(std::ostream &, const std::string &) const override {}
        };
        std::unique_ptr<decay0_generator> g(new decay0_generator);
        configure(*g, c);
        g->add_operation(std::make_shared<EchoFirst>());
        Tape tie(seed, 1);
        g->initialize(tie);
        bxdecay0::event Ea;
        T.rewind();
        g->shoot(T, Ea);
        size_t da = T.pos;
        bxdecay0::event Eb(Ea); // capacity == size of the result
        Eb.reset();
        // (reset() may or may not keep the storage; a second variant copies the plain event, one particle shorter)
        T.rewind();
        g->shoot(T, Eb);
        bxdecay0::event Ec(E0);
        T.rewind();
        g->shoot(T, Ec);
        evals++;
        kinds_seen.insert("echo-operation");
        bool shape_ok = Ea.get_particles().size() == E0.get_particles().size() + 1 && !E0.get_particles().empty()
                        && particles_bit_identical(Ea.get_particles().back(), E0.get_particles().front());
        if (!shape_ok || da != d0 || T.pos != d0 || !events_bit_identical(Ea, Eb) || !events_bit_identical(Ea, Ec)) {
          Mismatch & x = mm[lab + "|echo-operation"];
          if (x.count++ == 0) {
            x.key = lab + "|echo-operation";
            x.detail = "an operation appending a copy of the event's first particle: the result is not the plain event plus that copy, or depends on the capacity of the event object";
            x.ref = event_json(E0);
            x.port = event_json(Eb);
          }
        }
      }
      // H9: initialisation with another deviate source
      for (uint64_t is : {3ull, 4ull}) {
        auto g = fresh(is);
        bxdecay0::event E;
        T.rewind();
        g->shoot(T, E);
        check("init-tape", fmt("initialised with deviate stream %llu", (unsigned long long)is), E, T.pos);
      }
      // H10: two live instances of the same configuration shooting alternately
      {
        auto g1 = fresh(1);
        auto g2 = fresh(5);
        bxdecay0::event e1, e2;
        Tape o1(seed, 0x999000 + ti), o2(seed, 0x99A000 + ti);
        g1->shoot(o1, e1);
        g2->shoot(o2, e2);
        T.rewind();
        g2->shoot(T, e2);
        check("twin-instances", "two live instances of the same configuration, alternating", e2, T.pos);
        T.rewind();
        g1->shoot(T, e1);
        check("twin-instances", "two live instances of the same configuration, alternating (first instance)", e1, T.pos);
      }
      if (sample.empty()) sample = "{\"tape\":" + T.prefix_json(std::min<size_t>(d0, 8)) + ",\"canonical\":" + event_json(E0) + "}";
    }
    // H11: order independence over a whole stream - one instance shoots tapes 0..N-1, its twin the same tapes in reverse order;
    // every event of the stream is a test under a different history (state kept inside the instance between shots)
    {
      const long N = std::max<long>(300, 60 * ntapes);
      auto gA = fresh(1);
      auto gB = fresh(1);
      std::vector<bxdecay0::event> EA((size_t)N);
      std::vector<size_t> dA((size_t)N);
      auto tape_of = [&](long i, Tape & t) {
        t.reseed(seed, (hash_str(lab) & 0xffffff) * 4096 + 0x400000 + (uint64_t)i);
        if (i % 5 == 1) t.pin((size_t)(i / 5) % 4, (i % 10 == 1) ? 1e-9 : 1 - 1e-9); // first-lepton energy at both ends now and then
      };
      Tape t;
      for (long i = 0; i < N; i++) {
        tape_of(i, t);
        gA->shoot(t, EA[(size_t)i]);
        dA[(size_t)i] = t.pos;
      }
      for (long i = N - 1; i >= 0; i--) {
        tape_of(i, t);
        bxdecay0::event e;
        gB->shoot(t, e);
        evals++;
        kinds_seen.insert("stream-order");
        if (t.pos != dA[(size_t)i] || !events_bit_identical(EA[(size_t)i], e)) {
          Mismatch & x = mm[lab + "|stream-order"];
          if (x.count++ == 0) {
            x.key = lab + "|stream-order";
            x.detail = fmt("tape %ld of a stream of %ld gives another event when the stream is shot in reverse order (draws %zu vs %zu)", i, N, t.pos, dA[(size_t)i]);
            x.tape = t.prefix_json(std::min<size_t>(std::max(t.pos, dA[(size_t)i]), 50));
            x.ref = event_json(EA[(size_t)i]);
            x.port = event_json(e);
          }
        }
      }
    }
    fprintf(OUT, "{\"config\":%s,\"accepted\":true,\"evaluations\":%ld,\"history_kinds\":%zu,\"sample\":%s,", jstr(lab).c_str(), evals, kinds_seen.size(),
            sample.empty() ? "null" : sample.c_str());
    emit_mismatches(OUT, "mismatches", mm);
    fprintf(OUT, "}\n");
    fflush(OUT);
  }
  return 0;
}
