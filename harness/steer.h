// Deep steering: a frontier search over pinned tape cells, guided by the novelty of the event's branch signature.
//
// Single-cell steering reaches every branch of the *first* ladder on a path; a level that is fed only through a
// rare branch of a rare branch (Eu154: 0.019 % beta branch, then a 6 % gamma branch) needs two or more cells steered
// together.  Here every event whose signature was never seen becomes a node (its pins + its stream); a node is
// expanded by steering each later cell of its own path: the cell is set to the sorted candidate values (all harvested
// thresholds +-1e-9 and both tails) by bisection - if both ends of an interval give the same signature the interval is
// not subdivided (branch ladders are step functions of their deviate); between neighbouring candidates with different
// signatures the boundary is located numerically, which also finds outcomes hidden between them.  New signatures become new nodes.
//
// This is workload generation only: every event produced here is judged by the caller's monitors like any other.
#ifndef VERIF_STEER_H
#define VERIF_STEER_H
#include <cmath>
#include <algorithm>
#include <deque>
#include <functional>
#include <string>
#include <unordered_set>
#include <vector>

#include "diffcore_port.h"

namespace verif {

  struct DeepSteerStats
  {
    long nodes_expanded = 0, nodes_found = 0, events = 0, max_depth = 0, frontier_left = 0;
  };

  // one(steer, draws) runs one event on `tape` as currently seeded/pinned and returns the hash of its signature
  inline DeepSteerStats deep_steer(Tape & tape, uint64_t seed, uint64_t stream0, const std::vector<double> & thr, long max_events, int n_roots,
                                   const std::function<uint64_t(const std::string &, size_t &)> & one, size_t max_cells = 400)
  {
    DeepSteerStats s;
    struct Node
    {
      std::vector<std::pair<size_t, double>> pins;
      size_t draws;
      uint64_t stream;
    };
    std::vector<double> vals;
    vals.push_back(1e-12);
    for (double t : thr) {
      for (double eps : {-1e-9, 1e-9})
        if (t + eps > 1e-12 && t + eps < 1 - 1e-12) vals.push_back(t + eps);
      // the threshold itself and its floating-point neighbours: 'p <= X' and 'p < X' part ways only where 100*u == X exactly
      if (t > 1e-12 && t < 1 - 1e-12) {
        double lo = t, hi = t;
        vals.push_back(t);
        for (int k = 0; k < 2; k++) {
          lo = std::nextafter(lo, 0.0);
          hi = std::nextafter(hi, 1.0);
          vals.push_back(lo);
          vals.push_back(hi);
        }
      }
    }
    vals.push_back(1 - 1e-12);
    std::sort(vals.begin(), vals.end());
    vals.erase(std::unique(vals.begin(), vals.end()), vals.end());
    std::unordered_set<uint64_t> seen;
    std::deque<Node> frontier;
    auto apply = [&](const Node & n) {
      tape.reseed(seed, n.stream);
      for (auto & p : n.pins) tape.pin(p.first, p.second);
    };
    for (int r = 0; r < n_roots; r++) {
      Node n{{}, 0, stream0 + (uint64_t)r};
      apply(n);
      uint64_t sg = one("deep root", n.draws);
      s.events++;
      seen.insert(sg);
      frontier.push_back(n);
    }
    while (!frontier.empty() && s.events < max_events) {
      Node n = frontier.front();
      frontier.pop_front();
      s.nodes_expanded++;
      if ((long)n.pins.size() > s.max_depth) s.max_depth = (long)n.pins.size();
      size_t from = n.pins.empty() ? 0 : n.pins.back().first + 1;
      size_t to = std::min(n.draws, from + max_cells);
      for (size_t k = from; k < to && s.events < max_events; k++) {
        auto eval_v = [&](double v) -> uint64_t {
          apply(n);
          tape.pin(k, v);
          size_t d = 0;
          std::string steer = "deep:";
          for (auto & p : n.pins) steer += fmt(" %zu=%.17g", p.first, p.second);
          steer += fmt(" %zu=%.17g", k, v);
          uint64_t sg = one(steer, d);
          s.events++;
          if (seen.insert(sg).second) {
            Node c = n;
            c.pins.emplace_back(k, v);
            c.draws = d;
            frontier.push_back(c);
            s.nodes_found++;
          }
          return sg;
        };
        // bisection over the sorted candidate values
        std::vector<std::pair<size_t, size_t>> stack;
        std::vector<uint64_t> sig(vals.size(), 0);
        std::vector<char> have(vals.size(), 0);
        auto get = [&](size_t i) {
          if (!have[i]) {
            sig[i] = eval_v(vals[i]);
            have[i] = 1;
          }
          return sig[i];
        };
        // numeric refinement between two neighbouring candidates that give different signatures: finds branch boundaries that are
        // not literal thresholds (conversion-coefficient sums, computed probabilities) and the outcomes hidden between them
        std::function<void(double, uint64_t, double, uint64_t, int)> refine = [&](double a, uint64_t sa, double b, uint64_t sb, int depth) {
          if (sa == sb || depth <= 0 || b - a < 4e-10 || s.events >= max_events) return;
          double m = 0.5 * (a + b);
          uint64_t sm = eval_v(m);
          refine(a, sa, m, sm, depth - 1);
          refine(m, sm, b, sb, depth - 1);
        };
        stack.emplace_back(0, vals.size() - 1);
        while (!stack.empty() && s.events < max_events) {
          auto iv = stack.back();
          stack.pop_back();
          if (iv.second <= iv.first + 1) {
            uint64_t sa = get(iv.first), sb = get(iv.second);
            if (iv.second != iv.first && vals[iv.second] - vals[iv.first] > 2.5e-9) refine(vals[iv.first], sa, vals[iv.second], sb, 34);
            continue;
          }
          if (get(iv.first) == get(iv.second)) continue;
          size_t mid = (iv.first + iv.second) / 2;
          stack.emplace_back(iv.first, mid);
          stack.emplace_back(mid, iv.second);
        }
      }
    }
    s.frontier_left = (long)frontier.size();
    return s;
  }

} // namespace verif
#endif
