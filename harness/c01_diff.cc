// C01: background/calibration decays, port vs Decay0 reference, draw for draw (Level B),
// plus the per-event well-formedness monitor of C04 on the same executions.
//
// usage: c01_diff <specfile> <seed> <n_iid> <n_grid> <pairs> <port_fermi 0|1> [name ...]
//   specfile lines:  name <tab> thr1 thr2 ...      (harvested thresholds, already in (0,1))
// Output (fd 3 or stdout): one JSON line per nuclide.
#include <algorithm>
#include <cstdarg>
#include <cstdio>
#include <cstdlib>
#include <fstream>
#include <map>
#include <set>
#include <sstream>
#include <string>
#include <unordered_set>
#include <vector>

#include <bxdecay0/bb.h>
#include <bxdecay0/decay0_generator.h>
#include <bxdecay0/event.h>
#include <bxdecay0/genbbsub.h>

#include "diffcore.h"
#include "steer.h"

using namespace verif;

struct Runner
{
  std::string name;
  bool porcelain = false;
  bxdecay0::bbpars pars;
  bxdecay0::decay0_generator gen;
  Tape tape;
  Stats st;
  bool y90 = false;
  long y90_mono = 0; // Y90 pair events in which the port shares the pair energy equally
  uint64_t last_sig = 0;

  bool init()
  {
    // reference
    vf_initpar_();
    int ier = 0;
    ref_state().tape = &tape;
    tape.reseed(1, 0);
    if (!ref_genbbsub(2, name, 0, 0, -1, ier) || ier != 0) {
      fprintf(OUT, "{\"name\":%s,\"error\":\"reference rejects the name (ier=%d)\"}\n", jstr(name).c_str(), ier);
      return false;
    }
    // port, plumbing
    bxdecay0::event ev;
    int perr = 0;
    bxdecay0::genbbsub(tape, ev, bxdecay0::GENBBSUB_I2BBS_BACKGROUND, name, -1, -1, bxdecay0::GENBBSUB_ISTART_INIT, perr, pars);
    if (perr != 0) {
      fprintf(OUT, "{\"name\":%s,\"error\":\"port rejects the name (ier=%d)\"}\n", jstr(name).c_str(), perr);
      return false;
    }
    // port, porcelain
    gen.set_decay_category(bxdecay0::decay0_generator::DECAY_CATEGORY_BACKGROUND);
    gen.set_decay_isotope(name);
    gen.initialize(tape);
    y90 = (name == "Y90");
    return true;
  }

  // one event with the tape as currently pinned; returns draws
  size_t one(const std::string & steer)
  {
    last_sig = 0;
    RefEvent re;
    bxdecay0::event pe, pe2;
    // reference
    tape.rewind();
    vf_clearevent_();
    int ier = 0;
    bool ref_ok = ref_genbbsub(2, name, 0, 0, 1, ier);
    size_t rd = tape.pos;
    re.fetch();
    // port (plumbing)
    tape.rewind();
    int perr = 0;
    bool port_ok = true;
    std::string port_exc;
    try {
      bxdecay0::genbbsub(tape, pe, bxdecay0::GENBBSUB_I2BBS_BACKGROUND, name, -1, -1, bxdecay0::GENBBSUB_ISTART_GENERATE, perr, pars);
    } catch (tape_exhausted &) {
      port_ok = false;
      port_exc = "cap";
    } catch (std::exception & x) {
      port_ok = false;
      port_exc = x.what();
    }
    size_t pd = tape.pos;
    st.events++;
    if (pd > st.max_draws) st.max_draws = pd;
    st.draws_hist.push_back(pd);
    auto record = [&](std::map<std::string, Mismatch> & m, const std::string & key, const std::string & detail) {
      Mismatch & x = m[key];
      if (x.count++ == 0) {
        x.key = key;
        x.detail = detail;
        x.tape = tape.prefix_json(std::min<size_t>(std::max(rd, pd), 80));
        x.ref = re.json();
        x.port = event_json(pe);
        x.steer = steer;
      }
    };
    if (!ref_ok || !port_ok) {
      st.cap_hits++;
      if (ref_ok != port_ok || port_exc != "cap") {
        record(st.mm, name + "|abort|" + (port_ok ? "ref-cap" : port_exc.substr(0, 60)),
               fmt("reference %s, port %s", ref_ok ? "finished" : "cut by the draw cap", port_ok ? "finished" : port_exc.c_str()));
      }
      if (!port_ok) record(st.wf, name + "|" + (port_exc == "cap" ? "unbounded-draws" : "exception"), "port: " + port_exc);
      return pd;
    }
    if (perr != 0 || ier != 0) {
      record(st.mm, name + "|ier", fmt("ier reference %d port %d", ier, perr));
      return pd;
    }
    CmpResult c = compare_events(re, pe, rd, pd, y90);
    if (c.y90_waiver) {
      st.y90_waived++;
      if (c.y90_mono) y90_mono++;
    }
    if (!c.same) {
      std::string key = name + "|" + c.kind + "|" + re.signature(c.index < 0 ? 0 : c.index);
      record(st.mm, key, c.detail);
    }
    last_sig = hash_str(re.signature(1000));
    st.sigs.insert(last_sig);
    // C04 monitor on the port's event
    std::string wfk, wfd;
    if (!wellformed(pe, name, 12.0, wfk, wfd)) record(st.wf, name + "|" + wfk, wfd);
    // porcelain must give the same bits as plumbing
    tape.rewind();
    try {
      gen.shoot(tape, pe2);
      if (tape.pos != pd || !events_bit_identical(pe, pe2)) {
        record(st.mm, name + "|porcelain", fmt("decay0_generator::shoot differs from genbbsub (draws %zu vs %zu)", tape.pos, pd));
      }
    } catch (std::exception & x) {
      record(st.mm, name + "|porcelain-exception", x.what());
    }
    if (st.sample.empty() && st.events > 3) {
      st.sample = "{\"tape\":" + tape.prefix_json(std::min<size_t>(pd, 12)) + ",\"draws\":" + std::to_string(pd) + ",\"ref\":" + re.json() + ",\"port\":" + event_json(pe) + "}";
    }
    return pd;
  }
};

int main(int argc, char ** argv)
{
  if (argc < 7) {
    fprintf(stderr, "usage\n");
    return 2;
  }
  // keep Fortran PRINT output away from the JSON stream
  int fd = dup(1);
  dup2(2, 1);
  OUT = fdopen(fd, "w");
  std::string spec = argv[1];
  uint64_t seed = strtoull(argv[2], 0, 10);
  long n_iid = atol(argv[3]);
  int n_grid = atoi(argv[4]);
  int n_pairs = atoi(argv[5]);
  ref_state().port_fermi = atoi(argv[6]) != 0;
  std::set<std::string> only;
  for (int i = 7; i < argc; i++) only.insert(argv[i]);

  std::ifstream in(spec);
  std::string line;
  while (std::getline(in, line)) {
    if (line.empty()) continue;
    std::istringstream ls(line);
    std::string name;
    ls >> name;
    if (!only.empty() && !only.count(name)) continue;
    std::vector<double> thr;
    double v;
    while (ls >> v)
      if (v > 0 && v < 1) thr.push_back(v);

    Runner R;
    R.name = name;
    R.st.name = name;
    if (!R.init()) continue;
    uint64_t stream0 = hash_str(name) & 0xffffffffULL;
    uint64_t stream = stream0 << 24;
    // (i) i.i.d. tapes
    size_t kmax = 0;
    for (long i = 0; i < n_iid; i++) {
      R.tape.reseed(seed, stream++);
      size_t d = R.one("");
      if (d > kmax) kmax = d;
    }
    size_t K = std::min<size_t>(kmax, 64);
    // (ii) stratified cells, (iii) thresholds
    std::vector<double> grid = grid_values(n_grid);
    for (size_t k = 0; k < K; k++) {
      for (double gval : grid) {
        R.tape.reseed(seed, stream++);
        R.tape.pin(k, gval);
        R.one(fmt("cell %zu=%.17g", k, gval));
      }
      for (double t : thr) {
        for (double eps : {-1e-9, 1e-9}) {
          double val = t + eps;
          if (!(val > 0 && val < 1)) continue;
          R.tape.reseed(seed, stream++);
          R.tape.pin(k, val);
          R.one(fmt("cell %zu=%.17g (threshold)", k, val));
        }
      }
    }
    // (iv) pairs of pinned cells (two-level cascades): thresholds x thresholds on cells (a,b)
    if (!thr.empty() && n_pairs > 0) {
      Rng pr(seed, stream0 ^ 0x5151);
      for (int i = 0; i < n_pairs; i++) {
        size_t a = pr.below(std::max<size_t>(K, 1));
        size_t b = pr.below(std::max<size_t>(K, 1));
        double va = thr[pr.below(thr.size())] + (pr.below(2) ? 1e-9 : -1e-9);
        double vb = pr.below(3) == 0 ? pr.uniform() : thr[pr.below(thr.size())] + (pr.below(2) ? 1e-9 : -1e-9);
        if (!(va > 0 && va < 1 && vb > 0 && vb < 1)) continue;
        R.tape.reseed(seed, stream++);
        R.tape.pin(a, va);
        if (b != a) R.tape.pin(b, vb);
        R.one(fmt("cells %zu=%.17g,%zu=%.17g", a, va, b, vb));
      }
    }
    // (v) deep steering: frontier search over pinned cells, guided by new branch signatures of the reference event
    DeepSteerStats ds;
    long deep_events = getenv("VERIF_DEEP_EVENTS") ? atol(getenv("VERIF_DEEP_EVENTS")) : 0;
    if (deep_events > 0) {
      // two passes: branch signatures alone (reaches the deep cascades), then signatures together with the number of deviates
      // consumed - an accept/reject decision of a rejection sampler changes the count, not the branch, so only this pass puts
      // candidates on both sides of every acceptance boundary (a wrong envelope or charge in a rare beta branch moves it slightly)
      const long pass2 = std::min(deep_events / 3, 1500000L); // (events of the second pass are the long ones: bounded in the thorough tier)
      ds = deep_steer(R.tape, seed, (stream0 << 24) + (1ULL << 23), thr, deep_events - pass2, 4, [&](const std::string & steer, size_t & d) {
        d = R.one(steer);
        return R.last_sig;
      });
      DeepSteerStats ds2 = deep_steer(R.tape, seed, (stream0 << 24) + (1ULL << 23) + 64, thr, pass2, 4, [&](const std::string & steer, size_t & d) {
        d = R.one(steer);
        // (the count is capped: every further rejection would be a new signature, and the search would walk into ever longer loops -
        //  a thorough run spent hours on events of 1e5 deviates)
        return R.last_sig * 1000003ull + std::min<uint64_t>((uint64_t)d, 400);
      });
      ds.events += ds2.events;
      ds.nodes_expanded += ds2.nodes_expanded;
      ds.nodes_found += ds2.nodes_found;
      ds.max_depth = std::max(ds.max_depth, ds2.max_depth);
      ds.frontier_left += ds2.frontier_left;
    }
    // the documented difference must be THERE: the README publishes 'Y90' with the revised positron spectrum of the pair branch (from tag
    // 1.0.8); a build that falls back to the legacy scheme (one energy for both leptons) agrees with the reference everywhere
    if (R.y90 && R.st.y90_waived >= 10 && R.y90_mono == R.st.y90_waived) {
      Mismatch & x = R.st.mm[name + "|documented-revision-missing"];
      x.key = name + "|documented-revision-missing";
      x.count = R.st.y90_waived;
      x.detail = fmt("all %ld pair events of Y90 share the pair energy equally (0.3695 + 0.3695 MeV), as the legacy scheme and the reference do: the revised pair spectrum the README documents for 'Y90' "
                     "is not the one in use", R.st.y90_waived);
    }
    // emit
    Stats & s = R.st;
    std::sort(s.draws_hist.begin(), s.draws_hist.end());
    size_t p999 = s.draws_hist.empty() ? 0 : s.draws_hist[(size_t)(0.999 * (s.draws_hist.size() - 1))];
    fprintf(OUT, "{\"name\":%s,\"events\":%ld,\"distinct_signatures\":%zu,\"max_draws\":%zu,\"p999_draws\":%zu,\"cells\":%zu,\"thresholds\":%zu,"
                 "\"y90_waived\":%ld,\"cap_hits\":%ld,\"deep\":[%ld,%ld,%ld,%ld,%ld],\"sample\":%s,",
            jstr(name).c_str(), s.events, s.sigs.size(), s.max_draws, p999, K, thr.size(), s.y90_waived, s.cap_hits, ds.events, ds.nodes_expanded, ds.nodes_found, ds.max_depth, ds.frontier_left,
            s.sample.empty() ? "null" : s.sample.c_str());
    emit_mismatches(OUT, "mismatches", s.mm);
    fprintf(OUT, ",");
    emit_mismatches(OUT, "wellformed", s.wf);
    fprintf(OUT, "}\n");
    fflush(OUT);
  }
  return 0;
}
