#!/usr/bin/env python3
"""C07 - an event depends only on configuration and deviates, never on history or reuse."""
import json
import os
import sys
import tempfile

sys.path.insert(0, os.path.dirname(os.path.dirname(os.path.abspath(__file__))))
from vlib import build, gadata, genmon, schemes
from vlib.common import Check, NCPU, Rng, main_guard, pmap, run

WEIGHTED = ["Co60", "Bi207+Pb207m"]                      # background schemes with angular-correlation fix-ups
WEIGHTED_DBD = [("Mo100", 1), ("Mo100", 2), ("Mo100", 3), ("Mo100", 4),   # Ru100low
                ("Ge76", 1), ("Ge76", 2), ("Ge76", 3),                    # Se76low
                ("Nd150", 1), ("Nd150", 2), ("Nd150", 3), ("Nd150", 4), ("Nd150", 5)]  # Sm150low


def spec(chk, quick):
    table = schemes.ref_dbd_table()
    rng = Rng(chk.seed, 707)
    cheap, costly = [], []
    for n in schemes.background_names():
        cheap.append("B %s" % n)
    cells = []
    for iso in sorted(table):
        for level in sorted(table[iso]["levels"]):
            for mode in range(1, 21):
                if genmon.rule_accepts(table, iso, level, mode):
                    cells.append((iso, level, mode))
    cheap_cells = [c for c in cells if c[2] not in genmon.EXPENSIVE]
    exp_cells = [c for c in cells if c[2] in genmon.EXPENSIVE]
    pick = rng.sample(cheap_cells, 160 if quick else len(cheap_cells))
    for (iso, level) in WEIGHTED_DBD:
        for mode in (1, 3, 7, 17):
            if genmon.rule_accepts(table, iso, level, mode) and (iso, level, mode) not in pick:
                pick.append((iso, level, mode))
    for (iso, level, mode) in pick:
        cheap.append("D %s %d %d 0 0 0" % (iso, level, mode))
        if mode == 10 and rng.uniform() < 0.3:
            e0 = genmon.e0_of(table, iso, level, mode)
            cheap.append("D %s %d %d 1 %.17g %.17g" % (iso, level, mode, 0.0, max(0.03125, int(e0 * 32) / 64.0)))
    for (iso, level, mode) in rng.sample(exp_cells, 24 if quick else 200):
        costly.append("D %s %d %d 0 0 0" % (iso, level, mode))
    return cheap, costly


def run_harness(chk, exe, lines, ntapes, gadir, nshards):
    f = tempfile.NamedTemporaryFile("w", suffix=".spec", delete=False, dir=build.variant_dir("plain"))
    f.write("\n".join(lines) + "\n")
    f.close()

    def one(shard):
        return (shard,) + run([exe, f.name, str(chk.seed), str(ntapes), str(shard), str(nshards)], timeout=7200,
                              env=build.lib_env("plain", {"BXDECAY0_DBD_GA_DATA_DIR": gadir}))

    res = pmap(one, list(range(nshards)), jobs=NCPU)
    os.unlink(f.name)
    return res


def main():
    chk = Check("C07", "exploration")
    quick = chk.tier == "quick"
    cheap, costly = spec(chk, quick)
    gadir, _ = gadata.make_generator_datasets(chk.seed)
    exe = build.harness("plain", "c07_history", ["c07_history.cc"])
    results = run_harness(chk, exe, cheap, 6 if quick else 60, gadir, NCPU * 2)
    results += run_harness(chk, exe, costly, 1 if quick else 2, gadir, NCPU * 2)
    evals = 0
    nconf = 0
    kinds = 0
    samples = []
    for shard, rc, out, err in results:
        if rc != 0:
            chk.inconclusive_("c07_history shard %d exited %s: %s" % (shard, rc, err[-400:]))
        for ln in out.splitlines():
            if not ln.startswith("{"):
                continue
            r = json.loads(ln)
            if not r["accepted"]:
                chk.inconclusive_("configuration %s was not accepted: %s" % (r["config"], r.get("init_error")))
                continue
            nconf += 1
            evals += r["evaluations"]
            kinds = max(kinds, r["history_kinds"])
            if r.get("sample") and len(samples) < 2:
                samples.append({"config": r["config"], **r["sample"]})
            for m in r["mismatches"]:
                chk.violation(m["key"], "%s: event differs from the canonical one %s [%d cases]" % (r["config"], m["detail"], m["count"]),
                              {"config": r["config"], "canonical": m["ref"], "after_history": m["port"], "tape": m["tape"], "detail": m["detail"]})
    chk.require(nconf >= 200, "only %d configurations explored" % nconf)
    chk.require(kinds >= 9, "only %d history kinds exercised" % kinds)
    chk.coverage.update({
        "evaluations": evals,
        "distinct_nontrivial": nconf * kinds,
        "rule": "for each configuration and tape T the canonical event (fresh generator, fresh event, first shot) is compared bit for bit with the "
                "event after each history: k prior shots (1, 7, 1000), reused event object, event pre-filled with 0..150 junk particles, capacity "
                "forced to 1..9/16/200, moved-from event, other instances (incl. failed and gA initialisations) created/shot/reset/destroyed in between, "
                "reset()+identical re-configuration, initialisation with another deviate source, two live twins alternating; "
                "distinct = configurations x history kinds",
        "samples": samples or [{"note": "none"}],
        "configurations": nconf,
        "history_kinds": kinds,
    })
    chk.assumptions += ["bit-identity is demanded only between runs of the same binary on the same inputs"]
    chk.finish()


if __name__ == "__main__":
    main_guard(main)
