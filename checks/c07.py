#!/usr/bin/env python3
"""C07 - an event depends only on configuration and deviates, never on history or reuse."""
import json
import os
import sys
import tempfile

sys.path.insert(0, os.path.dirname(os.path.dirname(os.path.abspath(__file__))))
from vlib import build, gadata, genmon, schemes
from vlib.common import Check, NCPU, Rng, main_guard, pmap, run

WEIGHTED = ["Co60", "Bi207+Pb207m"]                      # background schemes with angular-correlation fix-ups
WEIGHTED_DBD = [("Mo100", 1), ("Mo100", 2), ("Mo100", 3), ("Mo100", 4),   # Ru100low
                ("Ge76", 1), ("Ge76", 2), ("Ge76", 3),                    # Se76low
                ("Nd150", 1), ("Nd150", 2), ("Nd150", 3), ("Nd150", 4), ("Nd150", 5)]  # Sm150low


def spec(chk, quick):
    table = schemes.ref_dbd_table()
    rng = Rng(chk.seed, 707)
    cheap, costly = [], []
    for n in schemes.background_names():
        cheap.append("B %s" % n)
    cells = []
    for iso in sorted(table):
        for level in sorted(table[iso]["levels"]):
            for mode in range(1, 21):
                if genmon.rule_accepts(table, iso, level, mode):
                    cells.append((iso, level, mode))
    cheap_cells = [c for c in cells if c[2] not in genmon.EXPENSIVE]
    exp_cells = [c for c in cells if c[2] in genmon.EXPENSIVE]
    pick = rng.sample(cheap_cells, 160 if quick else len(cheap_cells))
    for (iso, level) in WEIGHTED_DBD:
        for mode in (1, 3, 7, 17):
            if genmon.rule_accepts(table, iso, level, mode) and (iso, level, mode) not in pick:
                pick.append((iso, level, mode))
    for (iso, level, mode) in pick:
        cheap.append("D %s %d %d 0 0 0" % (iso, level, mode))
        if mode == 10 and rng.uniform() < 0.3:
            e0 = genmon.e0_of(table, iso, level, mode)
            cheap.append("D %s %d %d 1 %.17g %.17g" % (iso, level, mode, 0.0, max(0.03125, int(e0 * 32) / 64.0)))
    # the BxDecay0-only gA modes on the synthetic data sets (one table per nuclide and process, all different): listed together, so
    # that the "earlier life as the next configuration" history pairs a gA table with another one
    for iso in ("Se82", "Mo100", "Cd116", "Nd150"):
        for mode in (21, 22, 23, 24):
            cheap.append("D %s 0 %d 0 0 0" % (iso, mode))
    for (iso, level, mode) in rng.sample(exp_cells, 24 if quick else 200):
        costly.append("D %s %d %d 0 0 0" % (iso, level, mode))
    # windows on the quadrature-heavy modes (per-event spectrum tables live in the instance): lower bound > 0, 1/64 MeV lattice
    for (iso, level, mode) in rng.sample(exp_cells, 32 if quick else 300):
        steps = int(genmon.e0_of(table, iso, level, mode) * 64)
        if steps < 6:
            continue
        a = rng.randint(1, steps // 2)
        b = a + rng.randint(2, max(3, steps // 3))
        costly.append("D %s %d %d 1 %.17g %.17g" % (iso, level, mode, a / 64.0, b / 64.0))
    return cheap, costly


def run_harness(chk, exe, lines, ntapes, gadir, nshards):
    f = tempfile.NamedTemporaryFile("w", suffix=".spec", delete=False, dir=build.variant_dir("plain"))
    f.write("\n".join(lines) + "\n")
    f.close()

    def one(shard):
        return (shard,) + run([exe, f.name, str(chk.seed), str(ntapes), str(shard), str(nshards)], timeout=7200,
                              env=build.lib_env("plain", {"BXDECAY0_DBD_GA_DATA_DIR": gadir}))

    res = pmap(one, list(range(nshards)), jobs=NCPU)
    os.unlink(f.name)
    return res


def resolve_symbols(lib, names):
    """Map 'd+0x<vaddr>' / 't+0x<tls offset>' to symbol names with readelf (the library is built with -g, not stripped)."""
    rc, out, err = run(["readelf", "-sW", lib], timeout=120)
    syms = []
    for ln in out.splitlines():
        f = ln.split()
        if len(f) >= 8 and f[3] in ("OBJECT", "TLS"):
            try:
                syms.append((f[3], int(f[1], 16), int(f[2]), f[7]))
            except ValueError:
                pass
    res = {}
    for n in names:
        kind, off = n[0], int(n[2:], 16)
        res[n] = n
        for (typ, val, size, name) in syms:
            if (typ == "TLS") == (kind == "t") and val <= off < val + max(size, 1):
                rc2, dem, _ = run(["c++filt", name], timeout=20)
                res[n] = "%s (%s)" % (dem.strip() or name, n)
                break
    return res


def statics_monitor(chk, quick):
    exe = build.harness("plain", "c07_statics", ["c07_statics.cc"], libs="-ldl")
    lines = []
    for n in schemes.background_names():
        lines.append("B %s %s" % (n, " ".join("%.17g" % t for t in schemes.harvest_thresholds(schemes.parts_of(n)))))
    table = schemes.ref_dbd_table()
    rng = Rng(chk.seed, 708)
    cells = [(i, l, m) for i in sorted(table) for l in sorted(table[i]["levels"]) for m in (1, 2, 3, 7, 9, 10, 11, 12, 17, 20) if genmon.rule_accepts(table, i, l, m)]
    picked = rng.sample(cells, 60 if quick else 400)
    # every mode with at least three different isotopes in the pool: a value cached at the first use of a mode is only wrong for the
    # second isotope that uses it (mode 20 exists for Zr96, Xe136 and Nd150 only: all three are always in)
    for m in (1, 2, 3, 7, 9, 10, 11, 12, 17, 20):
        have = {c[0] for c in picked if c[2] == m}
        for c in cells:
            if len(have) >= 3:
                break
            if c[2] == m and c[0] not in have:
                picked.append(c)
                have.add(c[0])
    for (i, l, m) in picked:
        lines.append("D %s %d %d" % (i, l, m))
    f = tempfile.NamedTemporaryFile("w", suffix=".spec", delete=False, dir=build.variant_dir("plain"))
    f.write("\n".join(lines) + "\n")
    f.close()
    n_iid = 20 if quick else 200
    max_states = 300 if quick else 3000
    nsh = NCPU

    def one(shard):
        return (shard,) + run([exe, "scan", f.name, str(chk.seed), str(n_iid), str(max_states), str(shard), str(nsh)], timeout=7200, env=build.lib_env("plain"))

    info = {}
    cands = []
    for shard, rc, out, err in pmap(one, list(range(nsh)), jobs=NCPU):
        recs = [json.loads(l) for l in out.splitlines() if l.startswith("{")]
        if rc != 0 or not recs:
            chk.inconclusive_("c07_statics shard %d exited %s: %s" % (shard, rc, err[-300:]))
            continue
        r = recs[0]
        if shard == 0:
            info = {k: r[k] for k in ("words", "items", "configs", "shots", "words_changed_once", "mutable_words", "mutable_names", "states", "pointers_among_mutable")}
            info["injected_shots"] = 0
            info["candidates"] = 0
        info["injected_shots"] = info.get("injected_shots", 0) + r["injected_shots"]
        info["candidates"] = info.get("candidates", 0) + r["candidates"]
        cands += r["candidate_list"]
    if info.get("mutable_words"):
        lib = os.path.join(build.variant_dir("plain"), "libBxDecay0.so")
        names = resolve_symbols(lib, info["mutable_names"])
        info["mutable_symbols"] = [names[n] for n in info["mutable_names"]]
        confirmed = 0
        for c in cands[:12]:
            env = build.lib_env("plain")
            o1 = run([exe, "replay", f.name, str(chk.seed), str(c["a"]), str(c["x"]), str(n_iid)], timeout=600, env=env)[1]
            o2 = run([exe, "replay", f.name, str(chk.seed), "-1", str(c["x"]), str(n_iid)], timeout=600, env=env)[1]
            if o1.strip() and o2.strip() and o1 != o2:
                confirmed += 1
                chk.violation("hidden-static|" + ",".join(info["mutable_symbols"])[:160],
                              "the event of %s on a fixed tape depends on what was shot before it in the same process: after one shot of %s the event differs from the one "
                              "obtained in a fresh process; the library keeps mutable static state in %s" % (c["x_label"], c["a_label"], "; ".join(info["mutable_symbols"])),
                              {"history_1": "fresh process: shoot X", "history_2": "fresh process: shoot A, then shoot X", "A": c["a_label"], "X": c["x_label"],
                               "event_after_A": o1[:1500], "event_alone": o2[:1500], "replay": "%s replay <spec> %d %d %d %d" % (exe, chk.seed, c["a"], c["x"], n_iid)})
        info["candidates_confirmed_by_real_replay"] = confirmed
        if info.get("pointers_among_mutable"):
            chk.note("mutable static words hold addresses (heap data behind a static root): state injection skipped, replay permutations only")
    # ---- first-use statics: words that change exactly once in a process are first-use initialisations (guards, lazily built tables).
    #      Their final value must not depend on which event happened to come first: several processes walk the pool in different
    #      orders and report those words; a word that ends with different values is injected both ways before every pool shot, and a
    #      dependence is confirmed by real replays ([A1; X] vs [A2; X]) in fresh processes.
    max_items = 3000 if quick else 100000
    orders = list(range(1, (6 if quick else 16) + 1))

    def fu(os_):
        return (os_,) + run([exe, "firstuse", f.name, str(chk.seed), str(n_iid), str(os_), str(max_items)], timeout=7200, env=build.lib_env("plain"))

    seen = {}
    nproc = 0
    for os_, rc, out, err in pmap(fu, orders, jobs=NCPU):
        recs = [json.loads(l) for l in out.splitlines() if l.startswith("{")]
        if rc != 0 or not recs:
            chk.inconclusive_("c07_statics firstuse (order %d) exited %s: %s" % (os_, rc, err[-300:]))
            continue
        nproc += 1
        for w in recs[0]["once"]:
            seen.setdefault(w["word"], {}).setdefault(w["value"], (w["item"], w["config"], os_))
    info["first_use"] = {"processes": nproc, "orders": len(orders), "words_changed_exactly_once": len(seen), "words_with_order_dependent_value": 0,
                         "address_like_values_ignored": 0, "confirmed": 0}
    varying = {}
    for w, vals in seen.items():
        if len(vals) < 2:
            continue
        if any(0x10000 < int(v, 16) < (1 << 47) and int(v, 16) > 0x100000000 for v in vals):
            info["first_use"]["address_like_values_ignored"] += 1    # a pointer to a lazily allocated object: differs by construction
            continue
        varying[w] = vals
    info["first_use"]["words_with_order_dependent_value"] = len(varying)
    if varying:
        names = resolve_symbols(os.path.join(build.variant_dir("plain"), "libBxDecay0.so"), list(varying))
        wf = tempfile.NamedTemporaryFile("w", suffix=".words", delete=False, dir=build.variant_dir("plain"))
        pairs = {}
        for w, vals in varying.items():
            (v1, a1), (v2, a2) = list(vals.items())[:2]
            wf.write("%s %s %s\n" % (w, v1, v2))
            pairs[w] = (a1, a2)
        wf.close()
        rc, out, err = run([exe, "fuinject", f.name, str(chk.seed), str(n_iid), wf.name, str(max_items)], timeout=7200, env=build.lib_env("plain"))
        os.unlink(wf.name)
        recs = [json.loads(l) for l in out.splitlines() if l.startswith("{")]
        wit = recs[0]["witness_items"] if recs else []
        info["first_use"]["injected_shots"] = recs[0]["shots"] if recs else 0
        info["first_use"]["items_depending_on_the_value"] = recs[0]["differing"] if recs else 0
        syms = "; ".join(names[w] for w in varying)
        for x in wit[:4]:
            for w, (a1, a2) in pairs.items():
                env = build.lib_env("plain")
                o1 = run([exe, "replay", f.name, str(chk.seed), str(a1[0]), str(x), str(n_iid)], timeout=600, env=env)[1]
                o2 = run([exe, "replay", f.name, str(chk.seed), str(a2[0]), str(x), str(n_iid)], timeout=600, env=env)[1]
                if o1.strip() and o2.strip() and o1 != o2:
                    info["first_use"]["confirmed"] += 1
                    chk.violation("first-call-wins|" + syms[:160],
                                  "a first-use static of the library (%s) keeps a value that depends on which event came first in the process: the same tape gives another "
                                  "event after one shot of %s than after one shot of %s" % (syms, a1[1], a2[1]),
                                  {"history_1": "fresh process: shoot item %d (%s), then item %d" % (a1[0], a1[1], x), "history_2": "fresh process: shoot item %d (%s), then item %d" % (a2[0], a2[1], x),
                                   "event_1": o1[:1500], "event_2": o2[:1500], "replay": "%s replay <spec> %d <a> %d %d" % (exe, chk.seed, x, n_iid)})
                    break
            if info["first_use"]["confirmed"]:
                break
        if not info["first_use"]["confirmed"]:
            chk.note("first-use statics with order-dependent values (%s): no event of the pool depends on them" % syms[:200])
    # ---- alone versus in company: the event stream of every configuration (fixed tapes, steered branches included) in a process that
    #      does nothing else, and in processes that first walked the items of ALL configurations in a shuffled order.  Anything the library
    #      keeps for the life of a process and fills at the first use (a cache keyed too coarsely, a "first caller wins" constant) is then
    #      filled by another configuration; in-process comparisons cannot see it once both sides run after the first use.
    ncfg = len(lines)
    per = max(1, (ncfg + NCPU * 2 - 1) // (NCPU * 2))

    def alone(first):
        return (first,) + run([exe, "cfghash", f.name, str(chk.seed), str(n_iid), str(first), str(per), "0"], timeout=7200, env=build.lib_env("plain"))

    # 'alone' means alone: one process per configuration for the configurations of the first block, blocks of neighbours otherwise would
    # already be company - so every configuration gets its own process
    def alone1(ci):
        return (ci,) + run([exe, "cfghash", f.name, str(chk.seed), str(n_iid), str(ci), "1", "0"], timeout=7200, env=build.lib_env("plain"))

    def company(ws):
        return (ws,) + run([exe, "cfghash", f.name, str(chk.seed), str(n_iid), "0", str(ncfg), str(ws)], timeout=7200, env=build.lib_env("plain"))

    alone_h = {}
    for ci, rc, out, err in pmap(alone1, list(range(ncfg)), jobs=NCPU):
        recs = [json.loads(l) for l in out.splitlines() if l.startswith("{")]
        if rc != 0 or not recs or not recs[0]["configs"]:
            chk.inconclusive_("c07_statics cfghash (alone, configuration %d) exited %s: %s" % (ci, rc, err[-300:]))
            continue
        alone_h[ci] = recs[0]["configs"][0]
    compared = 0
    differing = {}
    warm_seeds = [11, 12] if quick else [11, 12, 13, 14, 15, 16]
    for ws, rc, out, err in pmap(company, warm_seeds, jobs=NCPU):
        recs = [json.loads(l) for l in out.splitlines() if l.startswith("{")]
        if rc != 0 or not recs:
            chk.inconclusive_("c07_statics cfghash (in company, order %d) exited %s: %s" % (ws, rc, err[-300:]))
            continue
        for c in recs[0]["configs"]:
            a = alone_h.get(c["cfg"])
            if a is None:
                continue
            compared += 1
            if a["hash"] != c["hash"] or a["error"] != c["error"]:
                differing.setdefault(c["config"], []).append(ws)
    for cfgname, wss in sorted(differing.items()):
        chk.violation("alone-vs-company|" + cfgname,
                      "%s: the event stream (fixed tapes) in a process that first ran the other configurations of the pool (orders %s) differs from the stream of the same "
                      "configuration alone in a process of its own: the library keeps something for the life of the process that another configuration filled" % (cfgname, wss),
                      {"config": cfgname, "orders": wss, "replay": "%s cfghash <spec> %d %d <cfg index> 1 0   versus   ... 0 %d %d" % (exe, chk.seed, n_iid, ncfg, wss[0])})
    # ---- first event of a process versus the same event later: every item of every configuration in a fresh (forked) process of its own
    #      against the same item inside a process that walks the configuration's items in order
    nblk = NCPU * 2
    per_blk = max(1, (ncfg + nblk - 1) // nblk)

    def fresh(first):
        return (first,) + run([exe, "itemfresh", f.name, str(chk.seed), str(n_iid), str(first), str(per_blk)], timeout=7200, env=build.lib_env("plain"))

    fresh_compared = 0
    fresh_failed = 0
    for first, rc, out, err in pmap(fresh, list(range(0, ncfg, per_blk)), jobs=NCPU):
        recs = [json.loads(l) for l in out.splitlines() if l.startswith("{")]
        if rc != 0 or not recs:
            chk.inconclusive_("c07_statics itemfresh (configurations from %d) exited %s: %s" % (first, rc, err[-300:]))
            continue
        fresh_compared += recs[0]["compared"]
        fresh_failed += recs[0]["failed_children"]
        for dct in recs[0]["differing"]:
            chk.violation("first-event-vs-later|" + dct["config"],
                          "%s: %d of %d fixed-tape events differ between 'the first thing the process does' and 'after the earlier items of the same configuration': the "
                          "library carries something from one decay of a nuclide to the next" % (dct["config"], dct["differing"], dct["items"]),
                          {"config": dct["config"], "first_witness_position": dct["first_witness_position"],
                           "replay": "%s itemfresh <spec> %d %d %d 1" % (exe, chk.seed, n_iid, dct["cfg"])})
    if fresh_failed:
        chk.note("itemfresh: %d child processes gave no result" % fresh_failed)
    chk.require(fresh_compared >= 1000, "first-event-versus-later compared only %d events" % fresh_compared)
    info["first_event_vs_later"] = {"events_compared": fresh_compared, "children_without_result": fresh_failed}
    info["alone_vs_company"] = {"configurations": ncfg, "alone_processes": len(alone_h), "company_processes": len(warm_seeds), "streams_compared": compared,
                                "configurations_differing": len(differing)}
    chk.require(compared >= ncfg, "alone-versus-company compared only %d streams" % compared)
    os.unlink(f.name)
    return info


def main():
    chk = Check("C07", "exploration")
    quick = chk.tier == "quick"
    cheap, costly = spec(chk, quick)
    gadir, _ = gadata.make_generator_datasets(chk.seed)
    exe = build.harness("plain", "c07_history", ["c07_history.cc"])
    results = run_harness(chk, exe, cheap, 6 if quick else 60, gadir, NCPU * 2)
    results += run_harness(chk, exe, costly, 1 if quick else 2, gadir, NCPU * 2)
    evals = 0
    nconf = 0
    kinds = 0
    samples = []
    for shard, rc, out, err in results:
        if rc != 0:
            chk.inconclusive_("c07_history shard %d exited %s: %s" % (shard, rc, err[-400:]))
        for ln in out.splitlines():
            if not ln.startswith("{"):
                continue
            r = json.loads(ln)
            if not r["accepted"]:
                chk.inconclusive_("configuration %s was not accepted: %s" % (r["config"], r.get("init_error")))
                continue
            nconf += 1
            evals += r["evaluations"]
            kinds = max(kinds, r["history_kinds"])
            if r.get("sample") and len(samples) < 2:
                samples.append({"config": r["config"], **r["sample"]})
            for m in r["mismatches"]:
                chk.violation(m["key"], "%s: event differs from the canonical one %s [%d cases]" % (r["config"], m["detail"], m["count"]),
                              {"config": r["config"], "canonical": m["ref"], "after_history": m["port"], "tape": m["tape"], "detail": m["detail"]})
    # ---- hidden-static-state monitor (writable static storage of the library watched at quiescent points)
    st = statics_monitor(chk, quick)
    evals += st.get("shots", 0) + st.get("injected_shots", 0)
    chk.require(nconf >= 200, "only %d configurations explored" % nconf)
    chk.require(kinds >= 11, "only %d history kinds exercised" % kinds)
    chk.coverage.update({
        "evaluations": evals,
        "distinct_nontrivial": nconf * kinds,
        "rule": "for each configuration and tape T the canonical event (fresh generator, fresh event, first shot) is compared bit for bit with the "
                "event after each history: k prior shots (1, 7, 1000), reused event object, event pre-filled with 0..150 junk particles, capacity "
                "forced to 1..9/16/200, moved-from event, an earlier life of the instance as another configuration (incl. the 16 gA tables), other instances (incl. failed and gA initialisations) created/shot/reset/destroyed in between, "
                "reset()+identical re-configuration, an abandoned configuration (window + operation, never initialised or initialisation raised) followed by "
                "reset() and the real configuration, initialisation with another deviate source, two live twins alternating, and a stream of >=300 tapes shot "
                "forwards by one instance and backwards by its twin (every event of the stream compared); static-storage monitor: the "
                "writable static storage of libBxDecay0.so (.data/.bss and this thread's TLS block) is snapshotted after every shot of a pool of steered "
                "runs; words that change more than once are mutable static state; their observed end-of-shot values are injected before every pool shot and "
                "any dependence is confirmed by real replays ([A; X] vs [X]) in fresh processes; first-use statics (words that change exactly once) are "
                "collected from processes that walk the pool in different orders: one that ends with different values is injected both ways and confirmed "
                "by replays [A1; X] vs [A2; X]; "
                "distinct = configurations x history kinds",
        "samples": samples or [{"note": "none"}],
        "configurations": nconf,
        "history_kinds": kinds,
        "static_storage_monitor": st,
    })
    chk.assumptions += ["bit-identity is demanded only between runs of the same binary on the same inputs"]
    chk.finish()


if __name__ == "__main__":
    main_guard(main)
