#!/usr/bin/env python3
"""C14 - the gA sampler stays in the kinematic domain and inverts its cumulative tables."""
import json
import math
import os
import shutil
import sys

sys.path.insert(0, os.path.dirname(os.path.dirname(os.path.abspath(__file__))))
from vlib import build, gadata
from vlib.common import comma_locale, Check, NCPU, Rng, main_guard, pmap, run, sanitizer_key

THRESH = [1 - 10.0 ** (-k) for k in range(1, 17)]   # the encoder's "nines" levels: 0.9, 0.99, ...


def nines_level(c):
    for k, t in enumerate(THRESH):
        if c < t:
            return k
    return None   # encoded as "!1"


def compare_decoded(chk, lab, truth, decoded, stats):
    """decoded arrays (through load_optimized_cdf_array) vs the encoder's exact normalised values."""
    arrays = [truth["e1_cdf"]] + truth["e2_cdf"]
    if len(arrays) != len(decoded):
        chk.violation("decode|array-count", "%s: %d arrays decoded, %d encoded" % (lab, len(decoded), len(arrays)), {"dataset": lab})
        return
    for ai, (enc, dec) in enumerate(zip(arrays, decoded)):
        if len(enc) != len(dec):
            chk.violation("decode|array-length", "%s: array %d has %d values, encoder wrote %d" % (lab, ai, len(dec), len(enc)), {"dataset": lab})
            continue
        cur9 = -1
        prev = -1.0
        for j, (e, d) in enumerate(zip(enc, dec)):
            stats["values"] += 1
            k = nines_level(e)
            if k is None:
                tol = 0.0 if e >= 1.0 else 2.3e-16
                stats["ones"] += 1
            else:
                cur9 = max(cur9, k)
                stats["maxlevel"] = max(stats["maxlevel"], cur9)
                p = (e - (1.0 - 10.0 ** (-cur9))) * 10.0 ** (cur9 + 1)
                # 7 significant digits of p, then scaled back; + 4 ulp at 1.0 for the bias arithmetic
                tol = 0.5 * 10.0 ** (math.floor(math.log10(p)) - 6 if p > 0 else -7) * 10.0 ** (-(cur9 + 1)) + 4 * 2.3e-16
                tol *= 1.01
            if not (abs(e - d) <= tol):
                chk.violation("decode|value|level%s" % ("one" if k is None else cur9),
                              "%s: array %d value %d: encoder %.17g, decoded %.17g (|diff| %.3g > %.3g)" % (lab, ai, j, e, d, abs(e - d), tol),
                              {"dataset": lab, "array": ai, "index": j, "encoded": e, "decoded": d})
                break
            if not (0.0 <= d <= 1.0):
                chk.violation("decode|range", "%s: decoded value %.17g outside [0,1]" % (lab, d), {"dataset": lab})
                break
            if d < prev:
                chk.violation("decode|not-monotone", "%s: array %d decreases at %d: %.17g after %.17g" % (lab, ai, j, d, prev), {"dataset": lab})
                break
            prev = d
        if dec and dec[-1] != 1.0:
            chk.violation("decode|last-not-1", "%s: array %d ends at %.17g, not 1" % (lab, ai, dec[-1]), {"dataset": lab, "array": ai})


def make_datasets(chk, quick, root):
    rng = Rng(chk.seed, 1400)
    out = []
    ntest = 24 if quick else 160
    nexc = 8 if quick else 40
    shapes = ["flat", "peaked", "steep", "phase", "zerotail", "holes"]
    for i in range(ntest + nexc):
        layout = "test" if i < ntest else "exceeds"
        base = os.path.join(root, "ds%03d" % i)
        n = [2, 3, 8, 96][i] if i < 4 else None
        # (the first two tables of the second layout end their grid exactly at the maximum energy sum, in every run)
        t = gadata.synth(base, "Test", "g0", rng, n=n, shape=shapes[i % 6] if layout == "test" else rng.choice(["flat", "phase"]), layout=layout,
                         emax_at_q=(True if i in (ntest, ntest + 1) else None) if layout == "exceeds" else None)
        if i % 3 == 1:
            # the step field of the header is informative only (the shipped Test table and the documentation example carry a rounded
            # one; the loaders recompute it from E_min, E_max and the number of samples): write a rounded / plainly different value
            d = os.path.join(base, "data/dbd_gA/v1.0/Test/g0")
            for fn in ("tab_ocdf.data", "tab_pdf.data"):
                fp = os.path.join(d, fn)
                if not os.path.exists(fp):
                    continue
                L = open(fp).read().split("\n")
                for k, l in enumerate(L):
                    tk = l.split()
                    if tk and tk[0] in ("Probability", "CumulativeProbability") and len(tk) >= 5:
                        tk[3] = "%.2g" % (float(tk[3]) * (1.0 if i % 2 else 0.875))
                        L[k] = " ".join(tk)
                open(fp, "w").write("\n".join(L))
            t["header_step_field"] = "rounded"
        out.append((base, "Test", "g0", 1, t))   # both layouts have a p.d.f. file (rejection method) and a c.d.f. file
    # the four real names through the generator-level layout
    for nuc in ("Se82", "Nd150"):
        base = os.path.join(root, "gen_" + nuc)
        for pr in gadata.PROCESSES:
            t = gadata.synth(base, nuc, pr, rng, n=rng.randint(6, 40), shape="phase", layout="test")
            out.append((base, nuc, pr, 1, t))
    return out


def drive(chk, variant, datasets, nrand, env=None, on_fail=None):
    exe = build.harness(variant, "c14_ga", ["c14_ga.cc"])
    nsh = min(NCPU, len(datasets))
    lists = []
    for s in range(nsh):
        p = os.path.join(os.path.dirname(datasets[0][0]), "list.%s.%d" % (variant, s))
        with open(p, "w") as f:
            for k, (base, nuc, pr, haspdf, t) in enumerate(datasets):
                if k % nsh == s:
                    f.write("%s %s %s %d\n" % (base, nuc, pr, haspdf))
        lists.append(p)

    def one(p):
        return (p,) + run([exe, p, str(chk.seed), str(nrand)], timeout=7200, env=build.lib_env(variant, env))

    recs = []
    for p, rc, out, err in pmap(one, lists, jobs=NCPU):
        if rc != 0:
            if on_fail:
                on_fail(chk, "c14_ga", rc, err, p)
            else:
                k = sanitizer_key(err)
                if k:
                    chk.violation("sanitizer|" + k, "gA driver aborted: %s" % err[-800:], {"stderr": err[-4000:]})
                else:
                    chk.inconclusive_("c14_ga (%s) exited %s: %s" % (variant, rc, err[-400:]))
        for ln in out.splitlines():
            if ln.startswith("{"):
                recs.append(json.loads(ln))
    return recs


def run_under(chk, variant, env, quick, report):
    """C08 hook."""
    root = os.path.join(build.cache_root(), "c14.%s.%d" % (variant, os.getpid()))
    shutil.rmtree(root, ignore_errors=True)
    os.makedirs(root)
    try:
        ds = make_datasets(chk, True, root)[: (10 if quick else 40)]
        e = dict(env or {})
        e.pop("BXDECAY0_DBD_GA_DATA_DIR", None)
        recs = drive(chk, variant, ds, 500 if quick else 5000, e, report)
        for r in recs:
            for m in r["mismatches"]:
                if chk.findings.match("C14", m["key"]) is None:
                    chk.violation("c14|" + m["key"], "gA monitor under %s: %s" % (variant, m["detail"]), {"detail": m["detail"]})
        n = sum(r["samples"] + r["events"] for r in recs)
        return n, sum(r["cells"] for r in recs), {"datasets": len(recs), "samples": n}
    finally:
        shutil.rmtree(root, ignore_errors=True)


def main():
    chk = Check("C14", "exploration")
    quick = chk.tier == "quick"
    root = os.path.join(build.cache_root(), "c14.%d" % os.getpid())
    shutil.rmtree(root, ignore_errors=True)
    os.makedirs(root)
    try:
        datasets = make_datasets(chk, quick, root)
        recs = drive(chk, "plain", datasets, 4000 if quick else 100000)
        by = {os.path.basename(b) + "/" + n + "/" + p: t for (b, n, p, h, t) in datasets}
        stats = {"values": 0, "ones": 0, "maxlevel": -1}
        samples = []
        tot_s = tot_e = tot_c = 0
        shapes = {}
        for r in recs:
            t = by.get(r["dataset"])
            if t is None:
                chk.inconclusive_("unknown dataset in output: %s" % r["dataset"])
                continue
            shapes["%s/%s" % (t["shape"], t["layout"])] = shapes.get("%s/%s" % (t["shape"], t["layout"]), 0) + 1
            compare_decoded(chk, r["dataset"] + " (n=%d %s %s)" % (t["n"], t["shape"], t["layout"]), t, r["decoded"], stats)
            tot_s += r["samples"]
            tot_e += r["events"]
            tot_c += r["cells"]
            for m in r["mismatches"]:
                chk.violation(m["key"] + ("|layout-" + t["layout"] if m["key"].startswith("sample|sum") else ""),
                              "%s (n=%d, shape %s, layout %s) [%d cases]" % (m["detail"], t["n"], t["shape"], t["layout"], m["count"]),
                              {"dataset": r["dataset"], "truth": {k: t[k] for k in ("n", "shape", "layout", "Q", "emin", "emax")}, "detail": m["detail"]})
            if r.get("sample") and len(samples) < 2:
                samples.append({"dataset": r["dataset"], **r["sample"]})
        # ---- the same datasets read while the process's C numeric locale has a decimal COMMA (what a GUI application that called
        #      setlocale(LC_ALL, "") under such a LANG has): the table format is locale-independent, so decoded values, cells and events
        #      must be the ones of the C locale
        locdir = comma_locale(os.path.join(root, "locale"))
        locale_runs = 0
        if locdir is None:
            chk.note("localedef not available: the decimal-comma pass was skipped")
        else:
            sub = datasets[::3][:12] if quick else datasets[::2]
            recs_l = drive(chk, "plain", sub, 500 if quick else 5000, env={"VERIF_LOCALE": "xx_XX", "LOCPATH": locdir})
            base_by = {r["dataset"]: r for r in recs}
            for r in recs_l:
                t = by.get(r["dataset"])
                b = base_by.get(r["dataset"])
                if t is None or b is None:
                    continue
                locale_runs += 1
                if r.get("locale_switches", 0) <= 0:
                    chk.inconclusive_("the decimal-comma locale could not be selected in the harness (%s)" % r.get("locale_switches"))
                    break
                if r["decoded"] != b["decoded"]:
                    chk.violation("locale|decoded-tables-differ", "%s: the cumulative tables decoded under a decimal-comma C locale differ from those decoded in the C locale" % r["dataset"],
                                  {"dataset": r["dataset"]})
                for m in r["mismatches"]:
                    chk.violation("locale|" + m["key"], "%s under a decimal-comma C locale (n=%d, shape %s) [%d cases]" % (m["detail"], t["n"], t["shape"], m["count"]),
                                  {"dataset": r["dataset"], "detail": m["detail"]})
            chk.require(locale_runs >= (8 if quick else 30), "only %d datasets went through the decimal-comma pass" % locale_runs)
        # ---- the envelope of the rejection sampler is the maximum of the whole table, also when that maximum sits on a node whose
        #      energies sum exactly to the maximum energy sum (hand-written 5x5 table, maximum 1.0 at (1.5,1.5), all other nodes <= 0.4)
        envd = os.path.join(root, "envelope", "data/dbd_gA/v1.0/Test/g0")
        os.makedirs(envd)
        rows = ["0.1 0.2 0.3 0.4 0.3", "0.2 0.3 0.4 0.2", "0.3 0.4 1.0", "0.4 0.2", "0.3"]   # node (i,j): e = 0.5 + 0.5 i; i + j == 4 is the boundary
        open(os.path.join(envd, "tab_pdf.data"), "w").write("3.0\nProbability 0.5 2.5 0.5 5\n" + "\n".join(rows) + "\n")
        exe_env = build.harness("plain", "c14_envelope", ["c14_envelope.cc"])
        rce, oute, erre = run([exe_env], timeout=600, env=build.lib_env("plain", {"BXDECAY0_DBD_GA_DATA_DIR": os.path.join(root, "envelope")}))
        rec_env = None
        for ln in oute.splitlines():
            if ln.startswith("{"):
                rec_env = json.loads(ln)
        if rce != 0 or rec_env is None or not rec_env.get("loaded") or not rec_env.get("control_returns"):
            chk.inconclusive_("c14_envelope gave no usable result (rc=%s): %s %s" % (rce, oute[-200:], erre[-200:]))
        elif rec_env["accepted_away_from_the_maximum"] > 0:
            chk.violation("rejection|envelope-below-the-table-maximum",
                          "with the acceptance deviate at 1 - 1e-9 the rejection sampler accepted %d of %d trials runs away from the table's maximum node (e.g. at %s): its envelope is below "
                          "the maximum of the table (which sits on a node with e1 + e2 equal to the maximum energy sum)" % (rec_env["accepted_away_from_the_maximum"], rec_env["runs"], rec_env["witness"]),
                          rec_env)
        chk.require(len(recs) == len(datasets), "harness reported %d of %d datasets" % (len(recs), len(datasets)))
        chk.require(stats["maxlevel"] >= 8, "encoded tables never reached a run of 9s beyond level %d" % stats["maxlevel"])
        chk.coverage.update({
            "evaluations": tot_s + tot_e + stats["values"],
            "distinct_nontrivial": tot_c,
            "rule": "synthetic joint p.d.f. tables (n = 2..96; flat, peaked, steep exponentials giving long runs of 9s, 2nu-like phase space, zero tails, interior bands of zero density giving flat runs inside the cumulative rows) are "
                    "encoded with the repository's own mkocdfdata.py; decoded values (load_optimized_cdf_array) are compared with the encoder's exact "
                    "normalised c.d.f. within the encoding precision; (u1,u2) on a lattice of cell boundaries (value, nextafter down/up), tails and random "
                    "pairs: e1,e2 >= 0, inside the selected table cell, e1+e2 <= dataset maximum, monotone in each deviate; shoot() on a tape == replayed "
                    "shoot_e1_e2 + shoot_cos_theta; rejection method in range and below the maximum; distinct = distinct (dataset, cell) pairs hit",
            "samples": samples or [{"note": "none"}],
            "datasets": len(recs),
            "dataset_kinds": shapes,
            "decoded_values_compared": stats["values"],
            "values_encoded_as_exact_one": stats["ones"],
            "deepest_nines_level_seen": stats["maxlevel"],
            "datasets_also_read_under_a_decimal_comma_locale": locale_runs,
            "pairs_sampled": tot_s,
            "events": tot_e,
        })
        chk.assumptions += ["no real dataset ships (1.7 GB, network); datasets are synthesised with resources/data/dbd_gA/tools/mkocdfdata.py from /repo",
                            "i_random promises deviates in [0,1); u = 1 is not driven"]
    finally:
        shutil.rmtree(root, ignore_errors=True)
    chk.finish()


if __name__ == "__main__":
    main_guard(main)
