#!/usr/bin/env python3
"""C10 - the momentum-direction-lock operation only re-orients: rigid rotation into the requested cone."""
import json
import os
import sys

sys.path.insert(0, os.path.dirname(os.path.dirname(os.path.abspath(__file__))))
from vlib import build
from vlib.common import Check, NCPU, main_guard, pmap, run

KEYS = ("operation_chains", "applications", "target_mode", "selection_mode", "nothing_selected", "rectangular", "degenerate", "errors_raised")


def drive(chk, variant, ncases, env=None, on_fail=None):
    exe = build.harness(variant, "c10_mdl", ["c10_mdl.cc"])
    nsh = NCPU * 2

    def one(shard):
        return (shard,) + run([exe, str(chk.seed), str(ncases), str(shard), str(nsh)], timeout=7200, env=build.lib_env(variant, env))

    tot = {k: 0 for k in KEYS}
    classes = 0
    maxdraws = 0
    sample = None
    mism = []
    for shard, rc, out, err in pmap(one, list(range(nsh)), jobs=NCPU):
        if rc != 0:
            if on_fail:
                on_fail(chk, "c10_mdl", rc, err, "shard %d" % shard)
            else:
                chk.inconclusive_("c10_mdl (%s) shard %d exited %s: %s" % (variant, shard, rc, err[-300:]))
        for ln in out.splitlines():
            if ln.startswith("{"):
                r = json.loads(ln)
                for k in KEYS:
                    tot[k] += r[k]
                classes += r["classes"]
                maxdraws = max(maxdraws, r["max_op_draws"])
                sample = sample or r.get("sample")
                mism += r["mismatches"]
    return exe, tot, classes, maxdraws, sample, mism


def run_under(chk, variant, env, quick, report):
    """C08 hook: the same workload in a sanitizer build; returns (evaluations, distinct, info)."""
    exe, tot, classes, maxdraws, sample, mism = drive(chk, variant, 150 if quick else 3000, env, report)
    for m in mism:
        chk.violation("c10|" + m["key"], "MDL monitor under %s: %s" % (variant, m["detail"]), m)
    return tot["applications"], classes, {"applications": tot["applications"], "classes": classes}


def main():
    chk = Check("C10", "exploration")
    quick = chk.tier == "quick"
    exe, tot, classes, maxdraws, sample, mism = drive(chk, "plain", 7000 if quick else 400000)
    for m in mism:
        chk.violation(m["key"], "%s [%d cases]" % (m["detail"], m["count"]),
                      {"before": m["ref"], "after": m["port"], "tape": m["tape"], "detail": m["detail"], "cmd": exe})
    chk.require(tot["applications"] >= 100000, "only %d operation applications" % tot["applications"])
    chk.require(tot["operation_chains"] > 5000, "only %d generators with several operations" % tot["operation_chains"])
    chk.require(tot["target_mode"] > 1000 and tot["selection_mode"] > 1000 and tot["rectangular"] > 1000, "a mode of the operation was hardly exercised")
    chk.coverage.update({
        "evaluations": tot["applications"],
        "distinct_nontrivial": classes,
        "rule": "events of 30 generators (multi-particle, e+, alpha, correlated gammas, DBD) x random operation configurations: species filter, rank -1..n, "
                "axis over the sphere incl. both poles and the phi=+-pi seam, given as angles or as a (non-unit) vector, apertures in [0,pi) incl. 0, pi/2, "
                "pi-1e-6, rectangular half-angles with analytic acceptance >= 4e-3 plus the degenerate null half-angles; monitors: count/species/times "
                "bit-identical, |p| 1e-12, draw discipline (stand-alone op on the plain decay with the tape at n0 == generator+op, bit for bit), rigid "
                "proper rotation and cone/window membership in target mode, membership + untouched rest in selection mode, nothing-selected behaviour, "
                "degree entry point == radian setters; every third case: 2-3 operations registered in one generator == the stand-alone operations applied in "
                "registration order (bit for bit, same deviates); distinct = (generator, mode, section, selection) classes",
        "samples": [sample] if sample else [{"note": "none"}],
        "max_deviates_consumed_by_one_operation": maxdraws,
        **tot,
    })
    chk.assumptions += ["the cone frame is the one of the axis vector (phi_C = atan2(y,x), theta_C = acos(z/|axis|)); exactly at the +z pole the longitude is 0 by convention"]
    chk.finish()


if __name__ == "__main__":
    main_guard(main)
