#!/usr/bin/env python3
"""C11 - stored events read back unchanged; the reader delivers exactly the asked window."""
import json
import os
import shutil
import sys

sys.path.insert(0, os.path.dirname(os.path.dirname(os.path.abspath(__file__))))
from vlib import build
from vlib.common import Check, main_guard, run, sanitizer_key


def main():
    chk = Check("C11", "exploration")
    quick = chk.tier == "quick"
    plans = [("plain", 5 if quick else 8, 4, 3000 if quick else 100000), ("asan", 4 if quick else 6, 3, 1000 if quick else 20000)]
    tot = {"roundtrip_events": 0, "sessions": 0, "partitions": 0, "delivered": 0, "classes": 0}
    samples = []
    per = {}
    for variant, maxn, maxf, nrt in plans:
        exe = build.harness(variant, "c11_reader", ["c11_reader.cc"])
        d = os.path.join(build.variant_dir(variant), "c11tmp.%d" % os.getpid())
        rc, out, err = run([exe, str(chk.seed), d, str(maxn), str(maxf), str(nrt)], timeout=7200, env=build.lib_env(variant))
        shutil.rmtree(d, ignore_errors=True)
        recs = [json.loads(l) for l in out.splitlines() if l.startswith("{")]
        if rc != 0 or not recs:
            k = sanitizer_key(err)
            if k:
                chk.violation("sanitizer|" + k, "reader sessions (%s build) aborted: %s" % (variant, err[-900:]), {"stderr": err[-4000:]})
            else:
                chk.inconclusive_("c11_reader (%s) exited %s: %s" % (variant, rc, err[-400:]))
            continue
        r = recs[0]
        per[variant] = {k: r[k] for k in tot}
        per[variant].update({"max_events": maxn, "max_files": maxf})
        for k in tot:
            tot[k] += r[k]
        if variant == "plain":
            samples.append({"record_as_written": r["sample"]})
        for m in r["mismatches"]:
            chk.violation(m["key"], "%s [%d cases]" % (m["detail"], m["count"]), {"witness": m["steer"], "detail": m["detail"], "variant": variant})
    chk.require(tot["sessions"] >= 10000, "only %d reader sessions" % tot["sessions"])
    chk.coverage.update({
        "evaluations": tot["sessions"] + tot["roundtrip_events"],
        "distinct_nontrivial": tot["classes"] + tot["partitions"],
        "rule": "round trip: random events (0..100 particles; hostile doubles: 0, powers of two, 1e+-300, smallest normal, 17-digit values) written exactly "
                "as bxdecay0-run does and read back, all numbers compared after rounding both to 15 significant digits; window: every stream of N <= maxN "
                "events, every partition into F <= maxF files (empty and whitespace-only files included), every (start, max) <= N+2, every pattern of 0-2 extra "
                "has_next_event() calls before loads and after the end; model = Python-like slice stream[start:start+max]; "
                "distinct = (N, F, start class, max class) classes + partitions",
        "samples": samples or [{"note": "none"}],
        "exhaustive": True,
        "per_build": per,
        **tot,
    })
    chk.assumptions += ["generator labels come from the published names (a label with white space would not survive the format)"]
    chk.finish()


if __name__ == "__main__":
    main_guard(main)
