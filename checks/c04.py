#!/usr/bin/env python3
"""C04 - every generated event is well-formed, time-ordered and produced in bounded work."""
import os
import sys

sys.path.insert(0, os.path.dirname(os.path.dirname(os.path.abspath(__file__))))
from vlib import covmon, gadata, genmon, schemes
from vlib.common import Check, Rng, main_guard, arg_value


WORK_BOUND = 20000   # deviates per shot; see the 'rule' text in the evidence


def spec_lines(chk, quick, frac):
    table = schemes.ref_dbd_table()
    rng = Rng(chk.seed, 404)
    lines = []
    for n in schemes.background_names():
        thr = schemes.harvest_thresholds(schemes.parts_of(n))
        lines.append("B %s %s %d" % (n, " ".join("%.17g" % t for t in thr), WORK_BOUND))
    skipped = 0
    for iso in sorted(table):
        for level in sorted(table[iso]["levels"]):
            for mode in range(1, 21):
                if not genmon.rule_accepts(table, iso, level, mode):
                    continue
                if mode in genmon.EXPENSIVE and rng.uniform() > frac:
                    skipped += 1
                    continue
                lines.append(genmon.dbd_line(table, iso, level, mode, work_bound=WORK_BOUND))
                # mode 10 samples the single positron by rejection under the maximum of the whole spectrum (as the reference does):
                # inside a window its acceptance is f(E)/f_max, legitimately tiny in a tail - only the hard cap applies there
                wb = 0 if mode == 10 else WORK_BOUND
                e0 = genmon.e0_of(table, iso, level, mode)
                if mode in genmon.WINDOW_MODES and rng.uniform() < 0.5:
                    # a window on the 1/64 MeV lattice starting in the lower half of the kinematic range
                    steps = int(e0 * 64)
                    if steps >= 4:
                        a = rng.randint(0, steps // 2)
                        b = a + rng.randint(max(1, steps // 6), steps)
                        # the spectrum tables have 1-keV bins: the work bound is claimed only for windows whose part inside the
                        # kinematic range spans at least 1/64 MeV (a window of two or three bins gives a ragged envelope; the thorough
                        # tier saw 25783 deviates for Sn124 level 8 mode 8 in a 2.6 keV window on the unchanged tree)
                        wide = min(b / 64.0, e0) - a / 64.0 >= 1 / 64.0
                        lines.append(genmon.dbd_line(table, iso, level, mode, (a / 64.0, b / 64.0), work_bound=wb if wide else 0))
                if mode in genmon.WINDOW_MODES and mode != 10 and e0 > 0.1 and rng.uniform() < (0.25 if quick else 1.0):
                    # ladder of windows climbing towards the end-point: the samplers adapt their envelopes to the window, so the
                    # work per shot must not grow while the window gets rarer (full/window ratio up to ~1e9 here)
                    for k in ((2, 4, 6) if quick else (1, 2, 3, 4, 5, 6, 7)):
                        wide = e0 * 2.0 ** -k >= 1 / 64.0
                        lines.append(genmon.dbd_line(table, iso, level, mode, (e0 * (1 - 2.0 ** -k), 4.3), work_bound=wb if wide else 0))
                    kk = rng.randint(1, 5)
                    lines.append(genmon.dbd_line(table, iso, level, mode, (0.0, e0 * 2.0 ** -kk), work_bound=wb if e0 * 2.0 ** -kk >= 1 / 64.0 else 0))
    # the witness of the known mode-10 finding is in every run: Cd106 -> Pd106 g.s., 2nuKb+, window [1.70, 1.7289] MeV at the end-point
    lines.append(genmon.dbd_line(table, "Cd106", 0, 10, (1.70, 1.7289), work_bound=0))
    return lines, skipped


def ga_lines(seed):
    """BxDecay0-only gA modes 21-24 through decay0_generator on synthetic data sets (written with the repository's encoder)."""
    gadir, info = gadata.make_generator_datasets(seed)
    lines = []
    for nuc in ("Se82", "Mo100", "Cd116", "Nd150"):
        for mode, pr in ((21, "g0"), (22, "g2"), (23, "g22"), (24, "g4")):
            q = info["%s/%s" % (nuc, pr)]["Q"]
            # D <name> <level> <mode> <e1> <e2> <window> <Q> <budget le> <chain> <tol> <work bound>: the data set's own maximum energy sum is the bound
            lines.append("D %s 0 %d 0 4.3 0 %.17g 0 0 0.003 %d" % (nuc, mode, q, WORK_BOUND))
    return gadir, lines


def main():
    chk = Check("C04", "exploration")
    quick = chk.tier == "quick"
    frac = float(arg_value("--expensive-fraction", "0.2" if quick else "1.0"))
    lines, skipped = spec_lines(chk, quick, frac)
    gadir, glines = ga_lines(chk.seed)
    lines += glines
    ga_env = {"BXDECAY0_DBD_GA_DATA_DIR": gadir}
    n_iid = 1500 if quick else 100000
    n_grid = 6 if quick else 40
    exe, recs, fails = genmon.run_specs("plain", lines, chk.seed, n_iid, n_grid, True, deep_events=30000 if quick else 5000000, extra_env=ga_env)
    for shard, rc, err in fails:
        chk.inconclusive_("gen_monitor shard %d exited %s: %s" % (shard, rc, err[-400:]))
    events = 0
    distinct = 0
    nb = nd = 0
    worst = []
    slow = []
    samples = []
    for r in recs:
        if not r["accepted"]:
            if "/w" in r["config"] and "draw cap" in (r.get("init_error") or ""):
                if "/m10/" in r["config"]:
                    # mode 10 in a window in the tail of the positron spectrum: acceptance f(E)/f_max of the whole spectrum (inherited from
                    # the reference) - practically unbounded work; one class of finding (known_findings.txt), still listed in the evidence
                    slow.append({"config": r["config"], "note": "initialisation shot cut by the draw cap"})
                    chk.violation("unbounded-work|m10-window|" + r["config"], "%s: the event generated during initialisation consumed more than 2e6 deviates" % r["config"], {"config": r["config"]})
                else:
                    chk.violation(r["config"] + "|unbounded-draws-at-initialisation", "%s: the initialisation consumed more than 2e6 deviates" % r["config"], {"config": r["config"]})
            if r["config"].startswith("bkg/"):
                chk.violation(r["config"] + "|refused", "published background name refused: %s" % r.get("init_error"), {"config": r["config"]})
            continue
        events += r["events"]
        distinct += r["distinct_signatures"]
        if r["kind"] == "B":
            nb += 1
        else:
            nd += 1
        worst.append((r["max_draws"], r["p999_draws"], r["config"]))
        for m in r["wellformed"]:
            if m["key"].endswith("|unbounded-draws") and r["window"] and r["mode"] == 10 and isinstance(r["toallevents"], (int, float)) and r["toallevents"] > 300:
                # mode 10 (one positron sampled by rejection under the maximum of the whole spectrum, as in the reference) inside a
                # window that holds less than 1/300 of the spectrum: the acceptance is below ~1e-3 and falls without bound towards the
                # end-point: a finding of its own class (the sampler of the reference, see DESIGN 7.3), not mixed with other cut shots
                slow.append({"config": r["config"], "toallevents": r["toallevents"], "shots_cut": m["count"]})
                chk.violation("unbounded-work|m10-window|" + r["config"], "%s: %s [%d events; full/window ratio %.3g]" % (r["config"], m["detail"], m["count"], r["toallevents"]),
                              {"config": r["config"], "cmd": exe, **m})
                continue
            chk.violation(m["key"], "%s: %s [%d events; steering: %s]" % (r["config"], m["detail"], m["count"], m["steer"] or "i.i.d."),
                          {"config": r["config"], "cmd": exe, **m})
        if r.get("sample") and len(samples) < 3:
            samples.append({"config": r["config"], **r["sample"]})
    worst.sort(reverse=True)
    # ---- reach of this workload inside the library (gcov build of the working tree; decides nothing, recorded as evidence)
    reach, cfiles = covmon.measure_gen_monitor(lines, chk.seed, 200 if quick else 3000, 4 if quick else 12, True, deep_events=30000 if quick else 300000, extra_env=ga_env)
    if reach["processes_failed"]:
        chk.note("coverage measurement: %d gen_monitor processes of the gcov build failed" % reach["processes_failed"])
    chk.require(reach["lines"]["percent"] >= 60.0, "the workload reached only %.1f %% of the library's lines" % reach["lines"]["percent"])
    chk.require(nb >= 69, "only %d background names generated (expected 69)" % nb)
    chk.require(nd >= 300, "only %d double-beta configurations generated" % nd)
    nga = sum(1 for r in recs if r.get("accepted") and r.get("mode", 0) >= 21)
    chk.require(nga == 16, "only %d of the 16 gA configurations were generated" % nga)
    chk.coverage.update({
        "evaluations": events,
        "distinct_nontrivial": distinct,
        "rule": "one evaluation = one shot of decay0_generator on one tape, monitored for: 1..100 particles, species in {gamma,e-,e+,alpha}, "
                "finite momenta, 0 <= Ekin <= bound (12 MeV background / Q double beta), finite non-negative non-decreasing times, event time 0, "
                "generator label, is_valid(), draws <= 2e6 (hard cap) and draws <= 20000 (work bound: observed maxima on this tree stay below ~5000 "
                "even for windows holding 1e-15 of the spectrum; not applied to windows on mode 10, whose reference algorithm rejects under the "
                "maximum of the whole positron spectrum, nor to windows spanning less than 1/64 MeV of the kinematic range - the tables have 1-keV bins); window ladders climbing to the end-point for the window-capable modes; tapes: i.i.d. + each of the first K<=64 cells pinned to 1e-12, 1-1e-12, 1e-300, "
                "pairs of neighbouring cells in opposite tails, a quantile/log-tail grid and branching thresholds, 40 leading cells all in one tail, "
                "and a frontier search over pinned cells guided by new branch signatures (harness/steer.h: rare branches of rare branches); distinct = distinct (configuration, branch signature) pairs",
        "samples": samples,
        "background_names": nb,
        "dbd_configurations": nd,
        "expensive_configurations_skipped_in_this_tier": skipped,
        "draws_per_shot_worst": [{"config": c, "max": m, "p999": p} for (m, p, c) in worst[:8]],
        "draw_cap": 2000000,
        "far_tail_windows_not_judged": slow,
        "library_reach_gcov": reach,
    })
    chk.assumptions += ["bounded work is decided in deviates drawn per shot (cap 2e6), never in seconds",
                        "gA modes 21-24 are generated on synthetic data sets (16 configurations; their kinematic bound is the data set's own maximum); "
                        "the sampler itself is decided by C14"]
    chk.finish()


if __name__ == "__main__":
    main_guard(main)
