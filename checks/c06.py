#!/usr/bin/env python3
"""C06 - a double-beta configuration is accepted iff the reference rules allow it."""
import os
import sys
import tempfile

sys.path.insert(0, os.path.dirname(os.path.dirname(os.path.abspath(__file__))))
from vlib import build, genmon, gadata, schemes
from vlib.common import Check, NCPU, Rng, main_guard, pmap, run, arg_value

UNKNOWN = ["Xx99", "mo100", "MO100", "Mo1000"]
GA_ISOTOPES = {"Se82", "Mo100", "Cd116", "Nd150"}
GA_MODES = {21, 22, 23, 24}


def model(table, name, level, mode, wkind, e1, e2, ga_present):
    """The rules of the property statement (executable model). Returns (accept, reason)."""
    if name not in table:
        return False, "unknown isotope"
    NAN = -999.0   # spec encoding of an undefined (NaN) limit: half-open windows are legal requests
    lo = None if e1 == NAN else e1
    hi = None if e2 == NAN else e2
    if wkind:
        if mode not in genmon.WINDOW_MODES:
            return False, "window on a mode that does not support one"
        if lo is not None and hi is not None and not (lo < hi):
            return False, "inverted window"
    if mode in GA_MODES:
        if name in GA_ISOTOPES and level == 0 and ga_present:
            return True, "gA mode, ground state, data present"
        return False, "gA modes only for Se82/Mo100/Cd116/Nd150 ground states"
    if level in table[name]["levels"] and table[name]["spin"].get(level) is None:
        # tabulated level whose spin is neither 0+ nor 2+ (Dy156 levels 12, 13; Dy158 level 2): the stated rules give no
        # mode list for it and the reference leaves its spin flag unset - no verdict
        return None, "level spin outside the stated rules"
    if not genmon.rule_accepts(table, name, level, mode):
        return False, "level/energy/spin/sign/4b rules"
    if wkind:
        e0 = genmon.e0_of(table, name, level, mode)
        if not (max(lo if lo is not None else 0.0, 0.0) < min(hi if hi is not None else 1e9, e0)):
            return False, "window does not intersect the kinematic range"
    return True, "rules satisfied"


def main():
    chk = Check("C06", "exploration")
    quick = chk.tier == "quick"
    table = schemes.ref_dbd_table()
    rng = Rng(chk.seed, 606)
    frac = float(arg_value("--expensive-fraction", "0.05" if quick else "1.0"))
    gadir, ga_info = gadata.make_generator_datasets(chk.seed)   # synthetic datasets for the four gA isotopes
    names = sorted(table) + UNKNOWN
    cells = []
    skipped = 0
    unspecified = 0
    for name in names:
        for level in [-100, -2] + list(range(-1, 18)):
            for mode in range(0, 26):
                for wk in range(8):   # 7 negative lower bound (accepted: the window is its intersection with the kinematic range); 0 none, 1 valid, 2 inverted, 3 above the kinematic range, 4 lower bound only, 5 upper bound only, 6 lower bound only above the range
                    if wk == 0:
                        w = (0, 0.0, 0.0)
                    elif wk == 1:
                        w = (1, 0.25, 0.75) if name not in table else (1, 0.0, max(0.03125, int(max(0.05, genmon.e0_of(table, name, max(0, min(level, max(table[name]["levels"]))), mode if 1 <= mode <= 20 else 1)) * 32) / 64.0))
                    elif wk == 2:
                        w = (1, 1.5, 0.5)
                    elif wk == 3:
                        w = (1, 5.0, 6.0)
                    elif wk == 4:
                        w = (1, 0.03125, -999.0)
                    elif wk == 5:
                        w = (1, -999.0, 0.75)
                    elif wk == 6:
                        w = (1, 5.0, -999.0)
                    else:
                        w = (1, -0.5, 0.25 if name not in table else max(0.03125, int(max(0.05, genmon.e0_of(table, name, max(0, min(level, max(table[name]["levels"]))), mode if 1 <= mode <= 20 else 1)) * 32) / 64.0))
                    acc, why = model(table, name, level, mode, w[0], w[1], w[2], True)
                    if acc is None:
                        unspecified += 1
                        continue
                    expensive = mode in genmon.EXPENSIVE
                    if acc and expensive and rng.uniform() > frac:
                        skipped += 1
                        continue
                    nshots = 20 if acc else 0
                    cells.append((name, level, mode, w, acc, why, nshots))
    exe = build.harness("plain", "c06_accept", ["c06_accept.cc"])
    spec = tempfile.NamedTemporaryFile("w", suffix=".spec", delete=False, dir=build.variant_dir("plain"))
    # spread the expensive accepted cells over the shards
    order = sorted(range(len(cells)), key=lambda i: (not (cells[i][4] and cells[i][2] in genmon.EXPENSIVE), i))
    cells = [cells[i] for i in order]
    for (name, level, mode, w, acc, why, nshots) in cells:
        spec.write("%s %d %d %d %.17g %.17g %d\n" % (name, level, mode, w[0], w[1], w[2], nshots))
    spec.close()
    nshards = NCPU * 4

    def one(shard):
        return (shard,) + run([exe, spec.name, str(chk.seed), str(shard), str(nshards)], timeout=7200,
                              env=build.lib_env("plain", {"BXDECAY0_DBD_GA_DATA_DIR": gadir}))

    res = pmap(one, list(range(nshards)), jobs=NCPU)
    os.unlink(spec.name)
    seen = 0
    scripted = [0]
    n_acc = n_rej = 0
    cellstate = set()
    samples = []
    for shard, rc, out, err in res:
        if rc != 0:
            chk.inconclusive_("c06_accept shard %d exited %s: %s" % (shard, rc, err[-300:]))
        for ln in out.splitlines():
            if ln.startswith("P "):
                scripted[0] += 1
                if ln.strip() != "P ok":
                    chk.violation("scripted|" + ("not-a-label-resolves" if "not mode labels" in ln else "incomplete-request-accepted" if "without daughter level" in ln else "verdict-depends-on-history|failed-gA-table-load"), ln[2:].strip()[:300], {"detail": ln})
                continue
            parts = ln.split(" ", 4)
            if len(parts) < 4 or not parts[0].isdigit():
                continue
            idx = int(parts[0])
            accepted = parts[1] == "A"
            shots_ok = int(parts[2])
            wf = parts[3]
            errtxt = parts[4] if len(parts) > 4 else ""
            name, level, mode, w, acc, why, nshots = cells[idx]
            seen += 1
            wtag = {(0,): "nowin"}.get((w[0],), "win[%g,%g]" % (w[1], w[2]))
            cell = "%s/L%d/m%d/%s" % (name, level, mode, wtag)
            cellstate.add((mode, w[0], acc, accepted))
            if accepted:
                n_acc += 1
            else:
                n_rej += 1
            if accepted != acc:
                # key: the rule that is broken, per isotope class rather than per cell, so one root cause is one key
                kind = "accepts-what-rules-reject" if accepted else "rejects-what-rules-accept"
                key = "%s|%s|%s" % (kind, why, "unknown-name:" + name if name not in table else ("m%d" % mode))
                chk.violation(key, "%s: generator %s, rules say %s (%s) %s" % (cell, "accepts" if accepted else "rejects", "accept" if acc else "reject", why, errtxt[:120]),
                              {"cell": cell, "name": name, "level": level, "mode": mode, "window": w, "error": errtxt})
            if "HISTORY-DEPENDENT-VERDICT" in errtxt:
                chk.violation("verdict-depends-on-history|m%d" % mode, "%s: %s" % (cell, errtxt[:200]), {"cell": cell, "detail": errtxt})
            if "ORDER-DEPENDENT-VERDICT" in errtxt:
                chk.violation("verdict-depends-on-setter-order|m%d" % mode, "%s: %s" % (cell, errtxt[:240]), {"cell": cell, "detail": errtxt})
            if "draw cap" in errtxt:
                chk.violation("initialisation-does-not-terminate|m%d" % mode, "%s: the request was not answered: initialize() consumed more than 2e6 deviates (%s)" % (cell, errtxt[:80]), {"cell": cell})
            if "THROWS-BUT-INITIALIZED" in errtxt:
                chk.violation("throws-but-initialized|m%d" % mode, "%s: initialize() threw but is_initialized() is true" % cell, {"cell": cell})
            if wf == "REJECTED-BUT-SHOOTS":
                chk.violation("rejected-but-shoots|m%d" % mode, "%s: rejected request still yields events" % cell, {"cell": cell})
            elif accepted and acc and (wf != "-" or shots_ok != nshots):
                chk.violation("accepted-but-bad-events|%s|m%d" % (wf.split(":")[0], mode), "%s: accepted, but shot %d fails: %s" % (cell, shots_ok, wf), {"cell": cell, "wf": wf})
            if len(samples) < 6 and (idx % 9973 == 0):
                samples.append({"cell": cell, "model": [acc, why], "generator": "accepts" if accepted else "rejects: " + errtxt[:80]})
    chk.require(seen == len(cells), "harness reported %d of %d cells" % (seen, len(cells)))
    chk.coverage.update({
        "evaluations": seen,
        "distinct_nontrivial": len(cellstate),
        "rule": "grid = (51 isotopes + 4 unknown/mis-cased names) x levels -100, -2, -1..17 x modes 0..25 x {no window, valid, inverted, lower-bound-only, upper-bound-only, negative lower bound, above the kinematic "
                "range}; each cell is configured through decay0_generator and initialised; verdict compared with an executable model of the stated rules "
                "(tables parsed from the reference source; gA datasets synthesised); accepted cells shoot 20 events through the C04 monitor, rejected "
                "cells must not shoot; every request is also put to one long-lived generator object per process (reset between requests) and must get the same verdict, and so must a fresh object given the same settings in a permuted order of setter calls (every third one after a detour through the other category); distinct = distinct (mode, window kind, model verdict, generator verdict) classes observed",
        "samples": samples or [{"note": "none"}],
        "cells": len(cells),
        "accepted": n_acc,
        "rejected": n_rej,
        "expensive_accepted_cells_skipped_in_this_tier": skipped,
        "cells_without_verdict_level_spin_outside_rules": unspecified,
        "exhaustive": skipped == 0,
        "gA_datasets": ga_info,
    })
    chk.assumptions += ["agreement of the same verdicts with the Fortran reference's ier for modes 1..20 without window is established by C02 on the same cells",
                        "gA data are synthetic (the real 1.7 GB dataset is not available offline)"]
    chk.finish()


if __name__ == "__main__":
    main_guard(main)
