#!/usr/bin/env python3
"""C01 - background/calibration decays reproduce the Decay0 reference, draw for draw."""
import json
import os
import sys
import tempfile

sys.path.insert(0, os.path.dirname(os.path.dirname(os.path.abspath(__file__))))
from vlib import build, refbuild, schemes
from vlib.common import Check, NCPU, main_guard, pmap, run, arg_value


def fermi_finding_stands(chk):
    return chk.findings.match("C01", "levelA|fermi|mass-constant") is not None


DEEP = [0]   # events of the deep-steering frontier search per nuclide (set in main)


def run_levelB(chk, variant, names, n_iid, n_grid, n_pairs, port_fermi, timeout):
    exe = refbuild.ref_harness(variant, "c01_diff", ["c01_diff.cc"])
    spec = tempfile.NamedTemporaryFile("w", suffix=".spec", delete=False, dir=build.variant_dir(variant))
    for n in names:
        thr = schemes.harvest_thresholds(schemes.parts_of(n))
        spec.write(n + "\t" + " ".join("%.17g" % t for t in thr) + "\n")
    spec.close()

    def one(name):
        cmd = [exe, spec.name, str(chk.seed), str(n_iid), str(n_grid), str(n_pairs), "1" if port_fermi else "0", name]
        rc, out, err = run(cmd, timeout=timeout, env=build.lib_env(variant, {"VERIF_DEEP_EVENTS": str(DEEP[0])}))
        return name, rc, out, err

    results = pmap(one, names, jobs=NCPU)
    os.unlink(spec.name)
    return exe, results


def main():
    chk = Check("C01", "translation_validation")
    if arg_value("--replay"):
        return replay(chk, arg_value("--replay"))
    quick = chk.tier == "quick"
    names_all = schemes.background_names()
    only = arg_value("--only")
    if only:
        names_all = [n for n in names_all if n.split("+")[0] in only.split(",")]
    n_iid = 100000 if quick else 2000000
    n_grid = 300 if quick else 5000
    n_pairs = 50000 if quick else 1000000
    DEEP[0] = 150000 if quick else 30000000
    port_fermi = fermi_finding_stands(chk)

    # ---- Level A: building blocks, function by function
    levela = {}
    if not only:
        exa = refbuild.ref_harness("plain", "c01_levela", ["c01_levela.cc"], extra_flags="-rdynamic")
        rc, out, err = run([exa, str(chk.seed), str(3000 if quick else 60000), "1" if port_fermi else "0"],
                           timeout=3600, env=build.lib_env("plain"))
        if rc != 0:
            chk.inconclusive_("c01_levela failed (rc=%s): %s" % (rc, err[-800:]))
        for ln in out.splitlines():
            if ln.startswith("{"):
                b = json.loads(ln)
                levela[b["block"]] = {"n": b["n"], "distinct": b["distinct"]}
                for f in b["fails"]:
                    chk.violation(f["key"], f["detail"], {"block": b["block"], "detail": f["detail"], "cmd": "%s %d" % (exa, chk.seed)})
        chk.require(len(levela) >= 15, "Level A observed only %d blocks" % len(levela))

    exe, results = run_levelB(chk, "plain", names_all, n_iid, n_grid, n_pairs, port_fermi, 3600 if quick else 6 * 3600)
    per = {}
    no_ref = []
    samples = []
    events = 0
    distinct = 0
    for name, rc, out, err in results:
        if rc is None:
            chk.inconclusive_("watchdog fired on %s" % name)
            continue
        recs = [json.loads(l) for l in out.splitlines() if l.startswith("{")]
        if rc != 0 or not recs:
            chk.inconclusive_("c01_diff failed on %s (rc=%s): %s" % (name, rc, err[-600:]))
            continue
        r = recs[0]
        if "error" in r:
            if "reference rejects" in r["error"]:
                no_ref.append(name)
            else:
                chk.violation("%s|init" % name, r["error"], {"name": name})
            continue
        per[name] = {k: r[k] for k in ("events", "distinct_signatures", "max_draws", "p999_draws", "cells", "thresholds",
                                       "y90_waived", "cap_hits")}
        events += r["events"]
        distinct += r["distinct_signatures"]
        if r.get("sample") and len(samples) < 4:
            samples.append({"name": name, **r["sample"]})
        for m in r["mismatches"]:
            chk.violation(m["key"], "%s: %s [%d events; steering: %s]" % (name, m["detail"], m["count"], m["steer"] or "i.i.d."),
                          {"name": name, "cmd": "%s <spec> %d ..." % (exe, chk.seed), **m})
    n_ref = len(per)
    chk.require(n_ref >= (61 if not only else 1), "only %d reference nuclides compared (expected 61)" % n_ref)
    chk.require(events >= 1000 * max(1, n_ref), "too few events compared")
    events += sum(b["n"] for b in levela.values())
    distinct += sum(b["distinct"] for b in levela.values())
    chk.coverage.update({
        "programs": n_ref + len(levela),
        "disagreements_checked": events,
        "evaluations": events,
        "distinct_nontrivial": distinct,
        "rule": "one evaluation = one (nuclide, deviate tape) pair run through the Fortran reference and the port and compared "
                "(draw count, species, momenta 1e-9, running-sum times); tapes: i.i.d., every one of the first K<=64 cells pinned "
                "over a log-tail+quantile grid and at harvested branching thresholds +-1e-9, random pairs of pinned cells, and a frontier search over "
                "pinned cells guided by new reference-event signatures (harness/steer.h: each new signature becomes a node whose later cells are "
                "steered by bisection over the thresholds with numeric refinement of every boundary - reaches rare branches of rare branches); "
                "distinct = distinct reference branch signatures (species:keV sequences) summed over nuclides",
        "samples": samples,
        "per_nuclide": per,
        "levelA_blocks": levela,
        "names_without_reference": no_ref,
        "port_fermi_substituted_in_reference": port_fermi,
    })
    chk.assumptions += [
        "CERNLIB kernels (gauss, dgmlt, divdif, cgamma, ranlux) are shared between both sides (not in the repository); C16 checks them separately",
        "the reference is compiled with -fdefault-real-8 and its 8-digit pi literal is widened to binary64 (DESIGN 1.3)",
    ]
    chk.finish()


def replay(chk, path):
    rec = json.load(open(path))
    print(json.dumps(rec, indent=1)[:4000])
    sys.exit(0)


if __name__ == "__main__":
    main_guard(main)
