#!/usr/bin/env python3
"""C17 - the Geant4 action hands over each particle unchanged and validates like the core."""
import json
import os
import shutil
import sys

sys.path.insert(0, os.path.dirname(os.path.dirname(os.path.abspath(__file__))))
from vlib import build
from vlib.common import Check, REPO, VERIF, main_guard, run, sanitizer_key


def main():
    chk = Check("C17", "exploration")
    quick = chk.tier == "quick"
    flags = "-I%s/harness/g4mock -I%s/extensions/bxdecay0_g4 -I%s/programs" % (VERIF, REPO, REPO)
    tot = None
    per = {}
    for variant, nconf, nev in (("plain", 200 if quick else 5000, 50 if quick else 200), ("asan", 40 if quick else 400, 20 if quick else 50)):
        exe = build.harness(variant, "c17_g4", ["c17_g4.cc"], extra_flags=flags)
        d = os.path.join(build.variant_dir(variant), "c17tmp.%d" % os.getpid())
        os.makedirs(d, exist_ok=True)
        rc, out, err = run([exe, str(chk.seed), str(nconf), str(nev), d], timeout=7200, env=build.lib_env(variant))
        shutil.rmtree(d, ignore_errors=True)
        recs = [json.loads(l) for l in out.splitlines() if l.startswith("{")]
        if rc != 0 or not recs:
            k = sanitizer_key(err)
            if k:
                chk.violation("sanitizer|" + k, "Geant4 action harness (%s build) aborted: %s" % (variant, err[-900:]), {"stderr": err[-4000:]})
            else:
                chk.inconclusive_("c17_g4 (%s) exited %s: %s" % (variant, rc, err[-400:]))
            continue
        r = recs[0]
        per[variant] = {k: r[k] for k in ("events", "primaries", "transfer_classes", "validation_cells", "refused_by_both", "accepted_by_both")}
        if variant == "plain":
            tot = r
        for m in r["mismatches"]:
            chk.violation(m["key"], "%s [%d cases]" % (m["detail"], m["count"]), {"detail": m["detail"], "variant": variant, "cmd": exe})
    if tot is None:
        chk.inconclusive_("no result from the plain build")
        tot = {"events": 0, "primaries": 0, "transfer_classes": 0, "validation_cells": 0, "sample": None}
    chk.require(tot["primaries"] >= 1000, "only %d primaries compared" % tot["primaries"])
    chk.require(per.get("plain", {}).get("accepted_by_both", 0) >= 5 and per.get("plain", {}).get("refused_by_both", 0) >= 100, "validation grid degenerate")
    chk.coverage.update({
        "evaluations": tot["primaries"] + tot["validation_cells"],
        "distinct_nontrivial": tot["transfer_classes"] + tot["validation_cells"],
        "rule": "the extension's primary_generator_action.cc, unique_point_vertex_generator.cc and vertex_generator_interface.cc are compiled unmodified against a "
                "recording stand-in for Geant4 (G4ParticleGun with the real SetParticleMomentum/GeneratePrimaryVertex semantics, CLHEP units with their real values); "
                "transfer: random valid configurations x events, expected events from the library API with the same std::default_random_engine(seed): one primary per "
                "particle in order, species, momentum vector in MeV rebuilt from direction/kinetic energy/Geant4 mass, time in seconds, vertex = vertex generator "
                "output (origin / fixed point / counting random generator, one ShootVertex per event); validation: grid category x nuclide x mode x level x seed, "
                "refusal by the action (AbortRun, exception, no primary) == refusal by the core driver (bxdecay0_driver.cpp + the command-line parser's range rules); "
                "distinct = transfer classes + validation cells",
        "samples": [tot.get("sample") or {"note": "none"}],
        "per_build": per,
    })
    chk.assumptions += ["trusted base: fidelity of the stand-in to Geant4's G4ParticleGun/G4Event/units (written from the Geant4 sources' documented behaviour)",
                        "seed 0 is not driven (the action requires seed >= 1, the command line accepts 0)"]
    chk.finish()


if __name__ == "__main__":
    main_guard(main)
