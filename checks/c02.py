#!/usr/bin/env python3
"""C02 - double-beta events reproduce the Decay0 reference for every isotope/level/mode."""
import json
import os
import sys
import tempfile
import time

sys.path.insert(0, os.path.dirname(os.path.dirname(os.path.abspath(__file__))))
from vlib import build, genmon, refbuild, schemes
from vlib.common import Check, NCPU, Rng, main_guard, pmap, run, arg_value

EXPENSIVE = {4, 5, 6, 8, 13, 14, 15, 16, 19}      # one quadrature per 1-keV bin at initialisation
WINDOW_MODES = {4, 5, 6, 8, 10, 13, 14, 15, 16, 19}
MAXLEVEL = 16


def configs(chk, quick, only=None):
    """(name, level, mode, e1, e2, window, nme) for all isotopes x levels 0..MAXLEVEL x modes 1..20;
    rejected ones cost microseconds on both sides and bind the ier comparison."""
    rng = Rng(chk.seed, 202)
    table = schemes.ref_dbd_table()
    out = []
    for name in schemes.dbd_names():
        if only and name not in only:
            continue
        for level in range(0, MAXLEVEL + 1):
            for mode in range(1, 21):
                if mode == 20 and level != 0:
                    # the reference silently rewrites the level to 0 for quadruple beta decay; the port refuses the
                    # request ("g.s. to g.s." only), which is what the stated rules ask: decided by C06's rule model
                    continue
                nme = [round(0.2 + 2.0 * rng.uniform(), 6) for _ in range(7)] if mode == 18 else None
                out.append((name, level, mode, 0.0, 4.3, 0, nme))
                if mode in WINDOW_MODES and genmon.rule_accepts(table, name, level, mode):
                    # windows on the 1/64 MeV lattice that intersect the kinematic range [0,e0] (an empty
                    # intersection is refused by the port - see C06 - while the reference generates garbage)
                    e0 = genmon.e0_of(table, name, level, mode)
                    steps = int(e0 * 64)
                    if steps < 2:
                        continue
                    nwin = 1 if quick else 3
                    for _ in range(nwin):
                        a = rng.randint(0, steps - 1)
                        b = a + rng.randint(1, steps + 8)
                        out.append((name, level, mode, a / 64.0, b / 64.0, 1, None))
    return out


def main():
    chk = Check("C02", "translation_validation")
    quick = chk.tier == "quick"
    only = arg_value("--only")
    only = only.split(",") if only else None
    port_fermi = chk.findings.match("C01", "levelA|fermi|mass-constant") is not None
    cfgs = configs(chk, quick, only)
    exe = refbuild.ref_harness("plain", "c02_diff", ["c02_diff.cc"])

    # pass 1: initialise nothing expensive - learn which configurations both sides accept (ier), cheaply:
    # expensive modes are first probed through their cheap sibling validation (ier is decided before any spectrum
    # is computed, so rejected cells return immediately; accepted expensive cells are sampled in quick)
    rng = Rng(chk.seed, 203)
    frac = float(arg_value("--expensive-fraction", "0.25" if quick else "1.0"))
    sel = []
    skipped_expensive = 0
    for c in cfgs:
        if c[2] in EXPENSIVE and frac < 1.0 and rng.uniform() > frac:
            skipped_expensive += 1
            continue
        sel.append(c)
    spec = tempfile.NamedTemporaryFile("w", suffix=".spec", delete=False, dir=build.variant_dir("plain"))
    # order: expensive first so the shards balance
    sel.sort(key=lambda c: (c[2] not in EXPENSIVE,))
    for (name, level, mode, e1, e2, w, nme) in sel:
        thr = genmon.daughter_thresholds(name) if (level > 0 or name in schemes.EXTRA_PARTS) else []
        spec.write("%s %d %d %.17g %.17g %d %s%s\n" % (name, level, mode, e1, e2, w, " ".join("%.17g" % v for v in (nme or [])),
                                                      (" T " + " ".join("%.17g" % t for t in thr)) if thr else ""))
    spec.close()
    n_iid = 300 if quick else 5000
    n_grid = 6 if quick else 60
    nshards = NCPU * 4

    def one(shard):
        cmd = [exe, spec.name, str(chk.seed), str(n_iid), str(n_grid), "1" if port_fermi else "0", str(shard), str(nshards)]
        env = {"VERIF_DEEP_EVENTS": "10000" if quick else "1500000"}
        if shard % 2 == 1:
            env["VERIF_C02_SHARED_PARS"] = "1"   # one bbpars object for the whole shard, never reset (see c02_diff.cc)
        return (shard,) + run(cmd, timeout=7200 if quick else 12 * 3600, env=build.lib_env("plain", env))

    results = pmap(one, list(range(nshards)), jobs=NCPU)
    os.unlink(spec.name)
    accepted = 0
    rejected = 0
    events = 0
    distinct = 0
    samples = []
    per_mode = {}
    maxdraws = 0
    for shard, rc, out, err in results:
        if rc is None:
            chk.inconclusive_("watchdog fired on shard %d" % shard)
            continue
        if rc != 0:
            chk.inconclusive_("c02_diff shard %d exited %s: %s" % (shard, rc, err[-500:]))
        for ln in out.splitlines():
            if not ln.startswith("{"):
                continue
            r = json.loads(ln)
            if r["accepted"]:
                accepted += 1
                events += r["events"]
                distinct += r["distinct_signatures"]
                maxdraws = max(maxdraws, r["max_draws"])
                pm = per_mode.setdefault(str(r["mode"]), {"configs": 0, "events": 0, "max_draws": 0})
                pm["configs"] += 1
                pm["events"] += r["events"]
                pm["max_draws"] = max(pm["max_draws"], r["max_draws"])
                if r.get("sample") and len(samples) < 4 and r["mode"] in (1, 4, 9, 20):
                    samples.append({"config": r["config"], **r["sample"]})
            else:
                rejected += 1
            for m in r["mismatches"]:
                if m["key"].endswith("|porcelain-init") and "draw cap" in m["detail"] and "/m10/w" in m["key"]:
                    # not a refusal: the event that initialize() generates exhausted the harness's deviate cap - the recorded unbounded work of
                    # mode 10 inside a window in the tail of the positron spectrum (see C04), seen through the generator-level comparison
                    m = dict(m, key="unbounded-work|m10-window|" + r["config"])
                chk.violation(m["key"], "%s: %s [%d events; steering: %s]" % (r["config"], m["detail"], m["count"], m["steer"] or "-"),
                              {"config": r["config"], "nme": r.get("nme"), **m})
    chk.require(accepted >= (200 if not only else 1), "only %d accepted configurations compared" % accepted)
    chk.coverage.update({
        "programs": accepted,
        "disagreements_checked": events,
        "evaluations": events + rejected + accepted,
        "distinct_nontrivial": distinct,
        "rule": "configurations = all 51 isotopes x levels 0..16 x modes 1..20 (+ seeded energy windows on window-capable modes, "
                "+ seeded NMEs for mode 18); for every configuration ier of both sides is compared (odd shards keep ONE bbpars object for all their configurations, never "
                "reset, as the reference keeps its common blocks); for accepted ones "
                "toallevents/clamped range/levelE/init draws, then events on i.i.d. tapes and with each of the first 12 cells pinned "
                "over a log-tail+quantile grid, and (levels with a de-excitation cascade) a frontier search over pinned cells guided by new "
                "reference-event signatures (harness/steer.h); distinct = distinct reference event signatures summed over configurations",
        "samples": samples or [{"note": "no sample captured"}],
        "configurations_accepted_and_compared": accepted,
        "configurations_rejected_by_both": rejected,
        "expensive_configurations_skipped_in_this_tier": skipped_expensive,
        "per_mode": per_mode,
        "max_draws_per_event": maxdraws,
        "port_fermi_substituted_in_reference": port_fermi,
    })
    chk.assumptions += ["shared CERNLIB kernels and pi widening as for C01 (DESIGN 1.3)",
                        "window bounds are multiples of 1/64 MeV so the porcelain's float conversion is exact"]
    chk.finish()


if __name__ == "__main__":
    main_guard(main)
