#!/usr/bin/env python3
"""C16 - numerical kernels against analytic oracles (DESIGN.md C16)."""
import json
import os
import sys

sys.path.insert(0, os.path.dirname(os.path.dirname(os.path.abspath(__file__))))
from vlib import build
from vlib.common import Check, main_guard, run


def main():
    chk = Check("C16", "exploration")
    scale = 1 if chk.tier == "quick" else 10
    groups = {}
    total = 0
    distinct = 0
    samples = []
    for variant in ("plain", "asan"):
        exe = build.harness(variant, "c16_kernels", ["c16_kernels.cc"])
        rc, out, err = run([exe, str(chk.seed), str(scale)], timeout=3600, env=build.lib_env(variant))
        if rc is None:
            chk.inconclusive_("watchdog fired on c16_kernels (%s)" % variant)
            continue
        if rc != 0:
            from vlib.common import sanitizer_key
            k = sanitizer_key(err)
            if k:
                chk.violation("sanitizer|" + k, "sanitizer report in kernels (%s build): %s" % (variant, err[-1500:]),
                              {"variant": variant, "stderr": err[-4000:]})
            else:
                chk.inconclusive_("c16_kernels (%s) exited %s: %s" % (variant, rc, err[-800:]))
            continue
        for ln in out.splitlines():
            if not ln.startswith("{"):
                continue
            g = json.loads(ln)
            name = g["group"]
            if variant == "plain":
                groups[name] = {"n": g["n"], "distinct": g["distinct"], "maxerr": g["maxerr"]}
                total += g["n"]
                distinct += g["distinct"]
            for f in g["fails"]:
                chk.violation(f["key"], f["detail"], {"group": name, "variant": variant, "detail": f["detail"],
                                                      "cmd": "%s %d %d" % (exe, chk.seed, scale)})
                if len(samples) < 6:
                    samples.append({"group": name, "failing_case": f["detail"]})
    expected = ["dgmlt1", "dgmlt2", "gauss", "tsimpr", "tgold", "divdif", "rotate_zyz", "fermi"]
    for e in expected:
        if e not in groups or groups[e]["n"] < 100:
            chk.inconclusive_("group %s observed too few cases" % e)
    samples.append({"group": "dgmlt1", "case": "x^k on [a,b], k=0..2*NG-1, NI=1..40, NG in {6,8}; |r-exact|<=1e-13*max|x|^k*(b-a)"})
    samples.append({"group": "fermi", "case": "Z=-92..92 x 25 log-spaced E in [50 eV,10 MeV] vs Stirling-series lnGamma (long double)"})
    chk.coverage.update({
        "evaluations": total,
        "distinct_nontrivial": distinct,
        "rule": "one evaluation = one kernel call compared with its analytic oracle; distinct = distinct "
                "(kernel, order/panels/degree | function family, tolerance | size, degree | point) parameter cells",
        "samples": samples,
        "groups": groups,
        "builds": ["plain", "asan"],
    })
    chk.assumptions += ["libm long double functions (oracle side) are accurate to 1e-15",
                        "the independent Fermi evaluation uses the same closed form p^(2g-2) exp(pi y)|Gamma(g+iy)|^2 with m_e = decay0_emass()"]
    chk.finish()


if __name__ == "__main__":
    main_guard(main)
