#!/usr/bin/env python3
"""C09 - the configure/initialise/shoot/reset protocol is a faithful state machine."""
import json
import os
import sys

sys.path.insert(0, os.path.dirname(os.path.dirname(os.path.abspath(__file__))))
from vlib import build, gadata
from vlib.common import Check, NCPU, main_guard, pmap, run, sanitizer_key


def main():
    chk = Check("C09", "model_checking")
    quick = chk.tier == "quick"
    plans = [("plain", 6 if quick else 8, 1), ("asan", 5 if quick else 6, 0)]
    tot = {"states": 0, "transitions": 0, "traces": 0, "calls": 0}
    samples = []
    per = {}
    # gA data directories for the gA-focused alphabet: a complete synthetic table, and a copy cut at a line boundary after three E2 rows
    import shutil
    gavalid, _ = gadata.make_generator_datasets(chk.seed)
    gacut = os.path.join(build.cache_root(), "gadata.cut.%d" % chk.seed)
    rel = "data/dbd_gA/v1.0/Mo100/g0/tab_ocdf.data"
    if not os.path.exists(os.path.join(gacut, rel)):
        os.makedirs(os.path.dirname(os.path.join(gacut, rel)), exist_ok=True)
        L = open(os.path.join(gavalid, rel)).read().split("\n")
        open(os.path.join(gacut, rel), "w").write("\n".join(L[:8]) + "\n")
    jobs = []
    for sh in range(4):
        exe = build.harness("plain", "c09_protocol", ["c09_protocol.cc"])
        jobs.append(("plain-gA", 12 if quick else 14, 0, exe, sh, 4))
    for variant, depth, exp in plans:
        exe = build.harness(variant, "c09_protocol", ["c09_protocol.cc"])
        nsh = NCPU if variant == "plain" else max(2, NCPU // 4)
        for sh in range(nsh):
            jobs.append((variant, depth, exp, exe, sh, nsh))

    def one(j):
        variant, depth, exp, exe, sh, nsh = j
        env = build.lib_env("plain" if variant == "plain-gA" else variant)
        env.pop("BXDECAY0_DBD_GA_DATA_DIR", None)
        cmd = [exe, str(chk.seed), str(depth), str(exp), str(sh), str(nsh)]
        if variant == "plain-gA":
            cmd += ["1", gacut, gavalid]
        return j + run(cmd, timeout=7200, env=env)

    probes = 0
    grid = [0, 0]
    seen_keys = set()
    for (variant, depth, exp, exe, sh, nsh, rc, out, err) in pmap(one, jobs, jobs=NCPU):
        recs = [json.loads(l) for l in out.splitlines() if l.startswith("{")]
        if rc != 0 or not recs:
            k = sanitizer_key(err)
            if k:
                chk.violation("sanitizer|" + k, "protocol exploration (%s build) aborted: %s" % (variant, err[-800:]), {"stderr": err[-4000:]})
            else:
                chk.inconclusive_("c09_protocol (%s, shard %d) exited %s: %s" % (variant, sh, rc, err[-400:]))
            continue
        r = recs[0]
        probes += r["reset_probes"]
        grid[0] += r.get("grid_cells", 0)
        grid[1] += r.get("grid_refused", 0)
        if sh == 0:
            per[variant] = {k: r[k] for k in ("states", "transitions", "traces", "calls", "alphabet", "max_depth")}
        if variant == "plain" and sh == 0:
            for k in tot:
                tot[k] = r[k]
            samples.append({"trace": r["sample"], "note": "every trace is replayed on a fresh decay0_generator next to the model"})
        for m in r["mismatches"]:
            if (variant, m["key"]) in seen_keys:
                continue
            seen_keys.add((variant, m["key"]))
            chk.violation(m["key"], m["detail"], {"variant": variant, "minimal_sequence": m["detail"], "cmd": "%s %d %d %d %d %d" % (exe, chk.seed, depth, exp, sh, nsh)})
    chk.require(tot["states"] >= 500, "only %d model states reached" % tot["states"])
    chk.coverage.update({
        "states": tot["states"],
        "transitions": tot["transitions"],
        "traces_validated_against_impl": tot["traces"],
        "samples": samples or [{"note": "none"}],
        "evaluations": tot["calls"],
        "distinct_nontrivial": tot["states"],
        "rule": "breadth-first over MODEL states (initialised flag, 7 configuration fields, #operations, event count <= 2, version flag): every "
                "(state, operation) pair within the depth bound is executed on the real object by replaying the shortest sequence reaching the "
                "state; after each call: throws <=> model, all getters == model, reset == freshly constructed (getters, and behaviourally: the same partial "
                "configuration Zn70/0/mode 5 without a window applied to the reset object and to a fresh one gives the same full/window ratio, deviate count "
                "and first event), failed initialize => still usable; after every successful initialize the object is compared with a FRESH instance given the same "
                "settings (same ratio, bit-identical events from identical tapes); a second, gA-focused alphabet (9 generator operations + the gA data "
                "directory in the environment: none / table cut after three rows / complete) is explored two levels deeper",
        "behavioural_reset_probes": probes,
        "invalid_configuration_grid": {"cells": grid[0], "refused": grid[1], "what": "energy-sum window on each of the 10 modes without window support x 6 (isotope, level) places incl. 2+ levels"},
        "per_build": per,
        "exhaustive": True,
    })
    chk.assumptions += ["alphabet of 25 operations (incl. half-open energy windows: one limit NaN) over cheap configurations (background K40, Mo100/Zn70 modes 1, 3, 5, gA mode 21 without data)",
                        "set_debug is not part of the alphabet (the debug flag is a management attribute that reset() keeps)"]
    chk.finish()


if __name__ == "__main__":
    main_guard(main)
