#!/usr/bin/env python3
"""C12 - independent generators do not interfere when used from different threads."""
import json
import os
import re
import sys

sys.path.insert(0, os.path.dirname(os.path.dirname(os.path.abspath(__file__))))
from vlib import build, gadata, genmon, schemes
from vlib.common import Check, NCPU, Rng, main_guard, pmap, run

TSAN_ENV = {"TSAN_OPTIONS": "halt_on_error=0:report_signal_unsafe=0:history_size=4:second_deadlock_stack=1"}


def tsan_reports(err):
    """[(key, block)]: de-duplicated by report kind + the two outermost library frames of the first stack."""
    out = {}
    for blk in err.split("=================="):
        m = re.search(r"WARNING: ThreadSanitizer: ([^\n(]+)", blk)
        if not m:
            continue
        kind = m.group(1).strip()
        frames = re.findall(r"#\d+ (\S+?)[\(\[ ]", blk)
        lib = [f for f in frames if f.startswith("bxdecay0::") or f.startswith("gsl_")]
        key = "tsan:%s|%s" % (kind, "|".join(lib[:2]) if lib else "?")
        out.setdefault(key, blk.strip()[:3000])
    return out


def main():
    chk = Check("C12", "exploration")
    quick = chk.tier == "quick"
    gadir, _ = gadata.make_generator_datasets(chk.seed)
    # ---- (1) TSan stress, fresh processes (first-use races exist once per process)
    exe_t = build.harness("tsan", "c12_threads", ["c12_threads.cc"], extra_flags="-rdynamic", libs="-ldl")
    plans = []
    for p in range(6 if quick else 60):
        plans.append((p, [2, 4, 16][p % 3], p % 2 == 0))

    def stress(plan):
        p, nt, noref = plan
        env = build.lib_env("tsan", dict(TSAN_ENV))
        if noref:
            env["VERIF_C12_NOREF"] = "1"   # no sequential warm-up: the threads hit every first use concurrently
        return plan + run([exe_t, "stress", str(chk.seed + p), str(nt), gadir], timeout=3600, env=env)

    # the same configurations, each ALONE in a process of its own (per seed used by the stress plans)
    def alone(a):
        sd, j = a
        return a + run([exe_t, "alone", str(sd), str(j), gadir], timeout=1800, env=build.lib_env("tsan", dict(TSAN_ENV)))

    rc0, out0, _ = run([exe_t, "alone", "1", "0", gadir], timeout=1800, env=build.lib_env("tsan", dict(TSAN_ENV)))
    njobs = json.loads(out0.splitlines()[-1])["njobs"] if rc0 == 0 and out0.strip() else 0
    chk.require(njobs > 0, "the 'alone' mode of c12_threads gave no result")
    alone_hash = {}
    alone_seeds = sorted({chk.seed + p for p, _, _ in plans})[: (3 if quick else 12)]
    for sd, j, rc, out, err in pmap(alone, [(sd, j) for sd in alone_seeds for j in range(njobs)], jobs=NCPU):
        recs = [json.loads(l) for l in out.splitlines() if l.startswith("{")]
        if rc != 0 or not recs:
            chk.inconclusive_("alone process (seed %d, job %d) gave no result (rc=%s): %s" % (sd, j, rc, err[-300:]))
            continue
        alone_hash[(sd, j)] = recs[0]
    alone_compared = 0

    streams = events = procs = 0
    tsan_classes = {}
    qng = etol = 0
    sample = None
    for p, nt, noref, rc, out, err in pmap(stress, plans, jobs=max(2, NCPU // 4)):
        recs = [json.loads(l) for l in out.splitlines() if l.startswith("{")]
        if rc is None or not recs:
            if rc is not None and rc < 0:
                chk.violation("stress|signal%d" % -rc, "concurrent run died with signal %d (threads=%d): %s" % (-rc, nt, err[-600:]), {"threads": nt, "stderr": err[-3000:]})
            else:
                chk.inconclusive_("stress process %d (threads=%d) gave no result (rc=%s): %s" % (p, nt, rc, err[-300:]))
            continue
        procs += 1
        r = recs[0]
        streams += r["streams"]
        events += r["events"]
        qng += r["qng_calls"]
        etol += r["qng_etol"]
        sample = sample or {k: r[k] for k in ("threads", "streams", "events", "jobs_accepted", "qng_calls", "qng_etol")}
        if r["jobs_accepted"] < r["jobs"] and not noref:
            chk.inconclusive_("only %d of %d stress configurations initialise" % (r["jobs_accepted"], r["jobs"]))
        for j, hs in enumerate(r.get("job_hashes", [])):
            a = alone_hash.get((chk.seed + p, j))
            if a is None:
                continue
            alone_compared += len(hs)
            if any(h != a["hash"] for h in hs):
                chk.violation("differs-from-run-alone|%s/m%d" % (a["name"], a["dbd_mode"]),
                              "configuration %s/L%d/m%d: an instance in the shared process (threads=%d, with%s sequential warm-up) gives another event stream than the same configuration, "
                              "seed and deviates alone in a process of its own" % (a["name"], a["level"], a["dbd_mode"], nt, "out" if noref else ""),
                              {"threads": nt, "job": j, "seed": chk.seed + p, "hashes_in_shared_process": hs, "hash_alone": a["hash"]})
        for m in r["mismatches"]:
            chk.violation(m["key"], "%s [threads=%d]" % (m["detail"], nt), {"threads": nt, "detail": m["detail"]})
        if r["integration_with_handler_on"] > 0:
            chk.violation("stress|I1-integration-with-handler-on", "%d quadrature calls ran while the installed GSL error handler was not 'off' (threads=%d)" % (r["integration_with_handler_on"], nt),
                          {"threads": nt})
        for k, blk in tsan_reports(err).items():
            tsan_classes[k] = tsan_classes.get(k, 0) + 1
            chk.violation(k, "ThreadSanitizer (threads=%d): %s" % (nt, blk[:900]), {"threads": nt, "report": blk})
    # ---- (1b) TSan sweep: every thread walks every published background name and a sample of double-beta cells
    table = schemes.ref_dbd_table()
    rng = Rng(chk.seed, 1212)
    cells = [(i, l, m) for i in sorted(table) for l in sorted(table[i]["levels"]) for m in range(1, 21)
             if genmon.rule_accepts(table, i, l, m) and m not in genmon.EXPENSIVE]
    exp_cells = [(i, l, m) for i in sorted(table) for l in sorted(table[i]["levels"]) for m in sorted(genmon.EXPENSIVE) if genmon.rule_accepts(table, i, l, m)]
    pick = rng.sample(cells, 60 if quick else len(cells)) + rng.sample(exp_cells, 6 if quick else 120)
    slines = ["B %s %s" % (n, " ".join("%.17g" % t for t in schemes.harvest_thresholds(schemes.parts_of(n)))) for n in schemes.background_names()]
    slines += ["D %s %d %d" % c for c in pick]
    # several processes, each a slice of the list (first-use races exist once per process; slices keep the wall time low)
    nproc = 8 if quick else 16
    sweep_jobs = []
    # ThreadSanitizer is a happens-before detector: a lock handed from one thread to another orders everything the first thread did
    # before.  The quadrature mutex of the double-beta initialisations would thus hide a race between two background schemes that the
    # threads visit at different times - so the background names and the double-beta cells go to separate processes
    nb = len(schemes.background_names())
    bpart, dpart = slines[:nb], slines[nb:]
    pb = nproc // 2
    slices = [bpart[k::pb] for k in range(pb)] + [dpart[k::(nproc - pb)] for k in range(nproc - pb)]
    for p in range(nproc):
        sl = slices[p]
        path = os.path.join(build.variant_dir("tsan"), "c12_sweep_%d_%d.spec" % (os.getpid(), p))
        open(path, "w").write("\n".join(sl) + "\n")
        sweep_jobs.append((p, [2, 4][p % 2], path, len(sl)))

    sweep_retries = []

    def sweep(j):
        p, nt, path, n = j
        cmd = [exe_t, "sweep", str(chk.seed + p), str(nt), path, "12" if quick else "200"]
        rc, out, err = run(cmd, timeout=3 * 3600, env=build.lib_env("tsan", dict(TSAN_ENV)))
        if rc not in (0, None) and not any(l.startswith("{") for l in out.splitlines()) and "ThreadSanitizer: SEGV" in err and "WARNING: ThreadSanitizer: data race" not in err:
            # the ThreadSanitizer runtime itself died (seen once in 16 x thorough processes on a machine that was also compiling 17 trees; not
            # reproduced in 75 repetitions of the same process): inconclusive by itself - run the same process once more and keep the first report
            sweep_retries.append({"process": p, "threads": nt, "rc": rc, "stderr_tail": err[-4000:]})
            rc, out, err = run(cmd, timeout=3 * 3600, env=build.lib_env("tsan", dict(TSAN_ENV)))
        return j + (rc, out, err)

    sweep_cfgs = sweep_streams = sweep_refused = 0
    for p, nt, path, n, rc, out, err in pmap(sweep, sweep_jobs, jobs=NCPU // 2):
        os.unlink(path)
        recs = [json.loads(l) for l in out.splitlines() if l.startswith("{")]
        if rc is None or not recs:
            if rc is not None and rc < 0:
                chk.violation("sweep|signal%d" % -rc, "concurrent sweep died with signal %d (threads=%d): %s" % (-rc, nt, err[-600:]), {"threads": nt, "stderr": err[-3000:]})
            else:
                chk.inconclusive_("sweep process %d (threads=%d) gave no result (rc=%s): %s" % (p, nt, rc, err[-300:]))
            continue
        r = recs[0]
        sweep_cfgs += r["configurations"]
        sweep_streams += r["streams"]
        sweep_refused += r["refused"]
        for m in r["mismatches"]:
            chk.violation(m["key"], "%s [threads=%d]" % (m["detail"], nt), {"threads": nt, "detail": m["detail"]})
        if r["integration_with_handler_on"] > 0:
            chk.violation("sweep|I1-integration-with-handler-on", "%d quadrature calls ran while the installed GSL error handler was not 'off' (threads=%d)" % (r["integration_with_handler_on"], nt), {"threads": nt})
        for k, blk in tsan_reports(err).items():
            tsan_classes[k] = tsan_classes.get(k, 0) + 1
            chk.violation(k, "ThreadSanitizer (sweep, threads=%d): %s" % (nt, blk[:900]), {"threads": nt, "report": blk})
    chk.require(sweep_cfgs >= len(slines), "the sweep covered only %d of %d configurations" % (sweep_cfgs, len(slines)))
    chk.require(sweep_refused == 0, "%d sweep configurations were refused" % sweep_refused)
    # ---- (1c) first-use races: fresh processes whose threads' FIRST library calls are different entry points, released together
    evfile = os.path.join(build.variant_dir("tsan"), "c12_firstuse_%d.d0t" % os.getpid())
    open(evfile, "w").write("0 0 K40\n1\n3 0 0.1 0.2 0.3\n\n1 1.5 K40\n2\n1 0 0.1 0 0\n3 1e-09 0 0 1\n\n")
    fu_plans = [(p, [2, 3, 4, 7][p % 4]) for p in range(14 if quick else 140)]

    def firstuse(plan):
        p, nt = plan
        return plan + run([exe_t, "firstuse", str(chk.seed * 1000 + p), str(nt), evfile], timeout=1800, env=build.lib_env("tsan", dict(TSAN_ENV)))

    fu_procs = fu_streams = 0
    for p, nt, rc, out, err in pmap(firstuse, fu_plans, jobs=max(2, NCPU // 2)):
        recs = [json.loads(l) for l in out.splitlines() if l.startswith("{")]
        if rc is None or not recs:
            if rc is not None and rc < 0:
                chk.violation("firstuse|signal%d" % -rc, "first-use run died with signal %d (threads=%d): %s" % (-rc, nt, err[-600:]), {"threads": nt, "stderr": err[-3000:]})
            else:
                chk.inconclusive_("first-use process %d (threads=%d) gave no result (rc=%s): %s" % (p, nt, rc, err[-300:]))
            continue
        fu_procs += 1
        fu_streams += recs[0]["streams"]
        for m in recs[0]["mismatches"]:
            chk.violation(m["key"], "%s [threads=%d]" % (m["detail"], nt), {"threads": nt, "detail": m["detail"]})
        for k, blk in tsan_reports(err).items():
            tsan_classes[k] = tsan_classes.get(k, 0) + 1
            chk.violation(k, "ThreadSanitizer (first use, threads=%d): %s" % (nt, blk[:900]), {"threads": nt, "report": blk})
    os.unlink(evfile)
    chk.require(fu_procs >= len(fu_plans) - 1, "only %d of %d first-use processes finished" % (fu_procs, len(fu_plans)))
    # ---- (2) deterministic enumeration of the interleavings of the four schedule points
    exe_p = build.harness("plain", "c12_threads", ["c12_threads.cc"], extra_flags="-rdynamic", libs="-ldl")
    sched = {}
    for calls in ([1] if quick else [1, 2]):
        rc, out, err = run([exe_p, "sched", str(calls)], timeout=6 * 3600, env=build.lib_env("plain"))
        recs = [json.loads(l) for l in out.splitlines() if l.startswith("{")]
        if rc != 0 or not recs:
            chk.inconclusive_("schedule enumeration (%d call(s) per thread) failed rc=%s: %s" % (calls, rc, err[-300:]))
            continue
        r = recs[0]
        sched["%dx%d" % (calls, calls)] = {k: r[k] for k in ("schedules", "feasible", "violating_I1", "violating_I2", "violating_I3", "qng_etol")}
        for m in r["mismatches"]:
            chk.violation(m["key"], "%s [%d of %d feasible schedules; history: %s]" % (m["detail"], m["count"], r["feasible"], m["steer"][:300]), {"detail": m["detail"], "history": m["steer"]})
        chk.require(r["qng_etol"] > 0, "the schedule workload never made QNG return GSL_ETOL (I3 would be vacuous)")
        chk.require(r["feasible"] >= 2, "no feasible schedule")
    chk.require(procs >= len(plans) - 1, "only %d of %d stress processes finished" % (procs, len(plans)))
    chk.require(etol > 0, "the stress workload never made QNG return GSL_ETOL")
    nsched = sum(v["schedules"] for v in sched.values())
    chk.coverage.update({
        "evaluations": streams + sweep_streams + fu_streams + nsched,
        "distinct_nontrivial": nsched + procs,
        "rule": "first use: fresh processes under ThreadSanitizer whose 2-7 threads make DIFFERENT first library calls at the same moment (lazily initialised state); "
                "sweep: under ThreadSanitizer, 2 or 4 threads each walk all 69 published background names (i.i.d. tapes and branch thresholds steered) and a sample of "
                "double-beta (isotope, level, mode) cells in different orders, so that every static object the library writes while generating is written by "
                "several threads; thread streams from equal tapes must be equal; stress: P fresh processes x T in {2,4,16} threads released by a barrier, each thread constructing, initialising and shooting its own "
                "generators (quadrature-heavy DBD modes incl. one whose QNG really returns GSL_ETOL, background, gA on synthetic data) with its own tape; "
                "ThreadSanitizer build with interposed gsl_set_error_handler(_off)/gsl_integration_qng touching a shadow of GSL's global handler; every "
                "thread's event stream must equal the stream of the same configuration run alone; half of the processes skip the sequential warm-up so "
                "first uses happen concurrently; schedules: all interleavings of the 4 hook points of two threads (70 for 1 call each, 12870 for 2), "
                "forced by a token-passing scheduler, invariants I1 (handler off while integrating), I2 (handler restored at quiescence), I3 (process "
                "default handler never invoked); distinct = schedules enumerated + processes",
        "samples": [sample or {"note": "none"}, sched],
        "stress_processes": procs,
        "first_use": {"processes": fu_procs, "results_compared_with_sequential": fu_streams,
                      "entry_points": "stand-alone dbd_gA on the shipped table (resource lookup), DBD / background / quadrature generators, catalogue accessors, get_resource, event_reader"},
        "streams_compared_with_the_configuration_run_alone_in_its_own_process": alone_compared,
        "sweep": {"processes": nproc, "configurations": sweep_cfgs, "thread_streams_compared": sweep_streams, "processes_rerun_after_a_sanitizer_runtime_failure": sweep_retries},
        "thread_streams_compared": streams,
        "events": events,
        "qng_calls": qng,
        "qng_returning_ETOL": etol,
        "tsan_report_classes": tsan_classes,
        "schedules": sched,
    })
    chk.assumptions += ["libgsl is not instrumented: its global handler is modelled by a shadow variable written/read by the interposed entry points",
                        "interleavings are distinguished at the four hook points and at TSan's happens-before granularity elsewhere",
                        "a schedule in which the scheduled thread does not reach its next point within 60 ms (blocked on the lock) is infeasible, never a violation"]
    chk.finish()


if __name__ == "__main__":
    main_guard(main)
