#!/usr/bin/env python3
"""C03 - every double-beta event closes its energy budget against Q and honours the window."""
import os
import sys

sys.path.insert(0, os.path.dirname(os.path.dirname(os.path.abspath(__file__))))
from vlib import genmon, schemes
from vlib.common import Check, Rng, main_guard, arg_value

TOL = 0.003  # MeV: tabulated cascade energies are rounded to keV; 2 m_e = 1.02199812 vs 1.022


def main():
    chk = Check("C03", "exploration")
    quick = chk.tier == "quick"
    table = schemes.ref_dbd_table()
    readme_levels = schemes.readme_dbd_levels()
    # the oracle table must be self-consistent with the README appendix (independent of the code under test)
    for iso, t in table.items():
        lv = readme_levels.get(iso, [])
        if len(lv) != len(t["levels"]) or any(abs(t["levels"][i] - e * 1000) > 0.6 for (i, _, e) in lv):
            chk.inconclusive_("oracle tables disagree for %s (reference source vs README appendix)" % iso)
    rng = Rng(chk.seed, 303)
    only = arg_value("--only")
    frac = float(arg_value("--expensive-fraction", "0.2" if quick else "1.0"))
    lines = []
    chains = []   # (key, [labels]) nested windows for the monotonicity check
    n_skipped = 0
    one_sided = [0]
    for iso in sorted(table):
        if only and iso not in only.split(","):
            continue
        for level in sorted(table[iso]["levels"]):
            for mode in range(1, 21):
                if not genmon.rule_accepts(table, iso, level, mode):
                    continue
                if mode in genmon.EXPENSIVE and rng.uniform() > frac:
                    n_skipped += 1
                    continue
                lines.append(genmon.dbd_line(table, iso, level, mode, None, TOL))
                if mode in genmon.WINDOW_MODES:
                    Q = genmon.q_of(table, iso, mode)
                    e0max = Q - table[iso]["levels"][level] / 1000.0
                    if table[iso]["Zdbb"] < 0:
                        e0max -= 4 * genmon.EMASS if mode != 10 else (table[iso]["EK"] + 2 * genmon.EMASS)
                    if e0max <= 0.05:
                        continue
                    # one random window; bounds on the 1/64 MeV lattice (exact in float)
                    steps = max(2, int(e0max * 64))
                    a = rng.randint(0, steps - 1)
                    b = rng.randint(a + 1, steps + 4)
                    if mode == 10:
                        # mode 10 rejects its single positron under the maximum of the whole spectrum (as the reference does): a narrow
                        # window in a tail costs up to 2e6 deviates per event; keep these windows wide (C04 owns the work question)
                        a = rng.randint(0, steps // 3)
                        b = a + rng.randint(max(1, steps // 3), steps)
                    lines.append(genmon.dbd_line(table, iso, level, mode, (a / 64.0, b / 64.0), TOL))
                    if rng.uniform() < (0.04 if quick else 1.0):
                        # one-sided windows through the API (the other limit left NaN); each is nested in the full range
                        lo_only = "dbd/%s/L%d/m%d/w%.6g-nan" % (iso, level, mode, a / 64.0)
                        hi_only = "dbd/%s/L%d/m%d/wnan-%.6g" % (iso, level, mode, max(b, 1) / 64.0)
                        lines.append(genmon.dbd_line(table, iso, level, mode, (a / 64.0, None), TOL))
                        lines.append(genmon.dbd_line(table, iso, level, mode, (None, max(b, 1) / 64.0), TOL))
                        full = "dbd/%s/L%d/m%d" % (iso, level, mode)
                        both = full + "/w%.6g-%.6g" % (a / 64.0, b / 64.0)
                        chains.append([full, lo_only, both])
                        chains.append([full, hi_only, both])
                        one_sided[0] += 2
                    if rng.uniform() < (0.06 if quick else 0.5):
                        # nested chain W1 > W2 > W3 (+ a degenerate-narrow one)
                        w1 = (max(0, a - 2) / 64.0, (b + 2) / 64.0)
                        w2 = (a / 64.0, b / 64.0)
                        mid = min((a + b) // 2, max(0, int(e0max * 64) - 1))   # keep the narrow window inside [0,e0]
                        w3 = (mid / 64.0, (mid + 1) / 64.0)
                        ch = []
                        for w in (w1, w3):
                            lines.append(genmon.dbd_line(table, iso, level, mode, w, TOL))
                        for w in (None, w1, w2, w3):
                            ch.append("dbd/%s/L%d/m%d" % (iso, level, mode) + ("/w%.6g-%.6g" % w if w else ""))
                        chains.append(ch)
    n_iid = 600 if quick else 8000
    n_grid = 8 if quick else 60
    exe, recs, fails = genmon.run_specs("plain", lines, chk.seed, n_iid, n_grid, False, deep_events=20000 if quick else 2000000)
    for shard, rc, err in fails:
        chk.inconclusive_("gen_monitor shard %d exited %s: %s" % (shard, rc, err[-400:]))
    by = {}
    events = 0
    distinct = 0
    hist = {}
    accepted = 0
    samples = []
    slow = []
    for r in recs:
        by[r["config"]] = r
        if not r["accepted"] and "/w" in r["config"] and "draw cap" in (r.get("init_error") or ""):
            # the initialisation shot already runs the rejection loop; a window in the far tail of the spectrum has a
            # legitimately tiny acceptance: reported, not judged
            slow.append(r["config"])
            continue
        if not r["accepted"]:
            chk.violation(r["config"] + "|refused", "a configuration the reference rules accept is refused: %s" % r.get("init_error"),
                          {"config": r["config"], "error": r.get("init_error")})
            continue
        accepted += 1
        events += r["events"]
        distinct += r["distinct_signatures"]
        zero_nu = r["mode"] in genmon.ZERO_NU
        for k, n in r["hist"].items():
            if zero_nu:
                hist[k] = hist.get(k, 0) + n
        for m in r["budget"]:
            # root-cause key for a cascade that is missing altogether is per isotope/level, not per mode
            chk.violation(m["key"], "%s: %s [%d events; steering: %s]" % (r["config"], m["detail"], m["count"], m["steer"] or "-"),
                          {"config": r["config"], "cmd": exe, **m})
        ta = r["toallevents"]
        # (a window that covers the whole kinematic range gives a quotient of two quadratures of the same integral: 1 up to their
        #  rounding, e.g. 0.99999999835 for Pb214 mode 13 with the window (-, 4.1875] on the unchanged tree)
        if not (isinstance(ta, (int, float)) and ta >= 1.0 - 1e-3):   # two quadratures asked for 1e-4 each; thorough seed 21 saw 0.9999980636 (Ca48 level 1 mode 8, window (-, 3.14])
            chk.violation(r["config"] + "|toallevents<1", "%s: toallevents = %r" % (r["config"], ta), {"config": r["config"]})
        if not r["window"] and isinstance(ta, (int, float)) and abs(ta - 1.0) > 1e-9:
            chk.violation(r["config"] + "|toallevents-fullrange", "%s: full range but toallevents = %r" % (r["config"], ta), {"config": r["config"]})
        if r.get("sample") and len(samples) < 3 and r["mode"] in (1, 9, 11):
            samples.append({"config": r["config"], **r["sample"]})
    nchains = 0
    worst_step = [0.0]
    for ch in chains:
        vals = [(c, by[c]["toallevents"]) for c in ch if c in by and by[c]["accepted"]]
        if len(vals) < 2:
            continue
        nchains += 1
        for (c1, t1), (c2, t2) in zip(vals, vals[1:]):
            # the ratio is a quotient of two adaptive quadratures asked for a relative tolerance of 1e-4 (1e-3 after a retry): two
            # nested windows that differ only beyond the end-point region give ratios equal up to that noise (the thorough tier saw
            # 938884.98 -> 935736.88, -0.34 %, for Cd116 level 5 mode 16 on the unchanged tree).  A decrease is a verdict above 2 %.
            if t1 > 0:
                worst_step[0] = min(worst_step[0], t2 / t1 - 1.0)
            if t2 < t1 * (1 - 2e-2):
                chk.violation(ch[0] + "|toallevents-not-monotone", "window narrows from %s to %s but toallevents goes %.9g -> %.9g" % (c1, c2, t1, t2),
                              {"chain": vals})
    wide = {k: n for k, n in hist.items() if abs(int(k)) >= 2}
    chk.require(accepted >= (300 if not only else 1), "only %d accepted configurations explored" % accepted)
    chk.coverage.update({
        "evaluations": events,
        "distinct_nontrivial": distinct,
        "rule": "every (isotope, level, mode 1..20) that the reference rules accept (table parsed from the reference source, "
                "cross-checked with the README level list), plus random and nested energy windows on the 1/64 MeV lattice; "
                "events from decay0_generator::shoot on i.i.d. tapes, with each of the first <=64 cells pinned over a grid and at the branching thresholds of the "
                "daughter's de-excitation scheme, and a frontier search over pinned cells guided by new cascade signatures (harness/steer.h); "
                "distinct = distinct (configuration, cascade path signature) pairs",
        "samples": samples or [{"note": "none"}],
        "configurations": accepted,
        "expensive_configurations_skipped_in_this_tier": n_skipped,
        "nested_window_chains_checked": nchains,
        "one_sided_windows": one_sided[0],
        "largest_relative_decrease_along_a_chain": worst_step[0],
        "monotonicity_tolerance": 2e-2,
        "histogram_Evis_minus_Q_keV_neutrinoless": {k: hist[k] for k in sorted(hist, key=lambda x: int(x))},
        "bins_beyond_1keV_within_tolerance": wide,
        "tolerance_keV": TOL * 1000,
        "far_tail_windows_not_judged": slow,
    })
    chk.assumptions += ["Q, EK, Z and level energies are parsed from resources/code/decay0/decay0_2020-04-20.for at check time",
                        "for Bi214/Pb214/Po218/Rn222 the budget covers the particles before the first alpha of the follow-up chain",
                        "BxDecay0-only gA modes (21-24) are bound by C14's dataset-level monitors (E1+E2 <= Emax of the dataset)"]
    chk.finish()


if __name__ == "__main__":
    main_guard(main)
