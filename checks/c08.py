#!/usr/bin/env python3
"""C08 - no undefined behaviour or memory error on any generation path.
Re-runs the generation drivers of C03/C04 (hostile tapes), C05 (dispatch), C07 (event reuse histories), C10
(post-generation operations) and C14 (gA sampler) in the ASan+UBSan build with libstdc++ assertions."""
import json
import re
import os
import sys
import tempfile

sys.path.insert(0, os.path.dirname(os.path.dirname(os.path.abspath(__file__))))
from vlib import build, gadata, genmon, schemes
from vlib.common import Check, NCPU, Rng, main_guard, pmap, run, sanitizer_key

CANARY = r"""
#include <vector>
#include <cstdio>
#include <cstdlib>
int main(int argc, char ** argv) {
  std::vector<int> v(4, 1);
  v.reserve(16);
  int k = argc > 1 ? atoi(argv[1]) : 0;
  if (k == 1) { int * p = new int[4]; delete[] p; printf("%d\n", p[1]); }          // use after free
  if (k == 2) { printf("%d\n", v[6]); }                                             // inside capacity: needs _GLIBCXX_ASSERTIONS
  if (k == 3) { int x = 2147483647; x += argc; printf("%d\n", x); }                 // signed overflow
  return 0;
}
"""


def selftest(chk):
    """The sweep refuses to pass if the sanitizer runtime is not active."""
    d = build.variant_dir("asan")
    os.makedirs(d, exist_ok=True)
    src = os.path.join(d, "canary.cc")
    open(src, "w").write(CANARY)
    exe = build.harness("asan", "canary", [src], link_bx=False)
    seen = []
    for k, want in ((1, "heap-use-after-free"), (2, "Assertion"), (3, "signed integer overflow")):
        rc, out, err = run([exe, str(k)], timeout=60, env=build.lib_env("asan"))
        ok = rc not in (0, None) and want in err
        seen.append(ok)
        if not ok:
            chk.inconclusive_("sanitizer self-test %d (%s) did not fire: rc=%s" % (k, want, rc))
    rc, out, err = run([exe, "0"], timeout=60, env=build.lib_env("asan"))
    if rc != 0:
        chk.inconclusive_("sanitizer canary fails on clean input: %s" % err[-300:])
    return all(seen)


def report(chk, driver, rc, err, context):
    """One aborted process = one report (reports are fatal in the gate)."""
    k = sanitizer_key(err)
    if k is None:
        if rc is None:
            chk.inconclusive_("%s: watchdog fired (%s)" % (driver, context))
        elif rc < 0 or rc >= 128:
            sig = -rc if rc < 0 else rc - 128
            chk.violation("%s|signal%d" % (driver, sig), "%s died with signal %d without a sanitizer report: %s" % (driver, sig, err[-600:]),
                          {"driver": driver, "context": context, "stderr": err[-3000:]})
        else:
            chk.inconclusive_("%s exited %s without a report (%s): %s" % (driver, rc, context, err[-300:]))
        return
    chk.violation(k, "%s: %s" % (driver, err[err.find("ERROR"):][:900] if "ERROR" in err else err[-900:]),
                  {"driver": driver, "context": context, "stderr": err[-6000:]})


def main():
    chk = Check("C08", "exploration")
    quick = chk.tier == "quick"
    active = selftest(chk)
    table = schemes.ref_dbd_table()
    rng = Rng(chk.seed, 808)
    events = 0
    distinct = 0
    drivers = {}
    gadir, _ = gadata.make_generator_datasets(chk.seed)
    env = {"BXDECAY0_DBD_GA_DATA_DIR": gadir, "ASAN_OPTIONS": "abort_on_error=1:detect_leaks=0:halt_on_error=1:quarantine_size_mb=256:detect_stack_use_after_return=1"}

    # ---- (1) generation monitor under hostile tapes: all background names + a sample of double-beta configurations
    lines = []
    for n in schemes.background_names():
        lines.append("B %s %s" % (n, " ".join("%.17g" % t for t in schemes.harvest_thresholds(schemes.parts_of(n)))))
    cells = [(i, l, m) for i in sorted(table) for l in sorted(table[i]["levels"]) for m in range(1, 21) if genmon.rule_accepts(table, i, l, m)]
    frac_c, frac_e = (0.35, 0.04) if quick else (1.0, 0.5)
    for (iso, level, mode) in cells:
        if rng.uniform() > (frac_e if mode in genmon.EXPENSIVE else frac_c):
            continue
        lines.append(genmon.dbd_line(table, iso, level, mode))
        if mode in genmon.WINDOW_MODES:
            steps = int(genmon.e0_of(table, iso, level, mode) * 64)
            if steps >= 4:
                # windows reaching the table end maximise int(e0*1000) and ke2f (spthe1/spthe2 indexing)
                lines.append(genmon.dbd_line(table, iso, level, mode, (rng.randint(0, steps // 2) / 64.0, (steps + 8) / 64.0)))
            if rng.uniform() < 0.5:
                # requests that must be refused are executions too: windows above the kinematic range, beyond the 4.3 MeV of the tables,
                # inverted, one-sided above the range (the refusal must come before anything is indexed or sampled with them)
                for w in ((5.0, 6.0), (9.0, 10.0), (1.0e3, 1.0e4), (3.0, 1.0), (4.5, None), (None, -1.0)):
                    lines.append(genmon.dbd_line(table, iso, level, mode, w))
    # the configurations with the largest kinematic limits are in every run: they index the keV-binned tables furthest
    # (the capacity invariant of harness/gen_monitor.cc is evaluated on them, and modes with a sampled second lepton write spthe2 per event)
    ranked = sorted(((genmon.e0_of(table, i, 0, 1), i) for i in table if genmon.rule_accepts(table, i, 0, 1)), reverse=True)
    for _, iso in ranked[:6]:
        for mode in (1, 5, 15):
            if genmon.rule_accepts(table, iso, 0, mode):
                ln = genmon.dbd_line(table, iso, 0, mode)
                if ln not in lines:
                    lines.append(ln)
    exe, recs, fails = genmon.run_specs("asan", lines, chk.seed, 150 if quick else 3000, 3 if quick else 12, True, extra_env=env, deep_events=10000 if quick else 1000000)
    for shard, rc, err in fails:
        report(chk, "gen_monitor", rc, err, "shard %d" % shard)
    for r in recs:
        for m in r.get("memory", []):
            chk.violation(m["key"], "%s [%s]" % (m["detail"], r.get("config")), {"config": r.get("config"), "detail": m["detail"]})
    n1 = sum(r.get("events", 0) for r in recs)
    events += n1
    distinct += sum(r.get("distinct_signatures", 0) for r in recs)
    drivers["gen_monitor(hostile)"] = {"configurations": len(recs), "events": n1, "divdif_calls_on_heap_copies_of_their_tables": genmon.TABLEWRAP[0]}
    chk.require(genmon.TABLEWRAP[0] > 1000, "the table interposer saw only %d divdif calls" % genmon.TABLEWRAP[0])
    chk.require(len(recs) >= 0.9 * len(lines), "gen_monitor reported %d of %d configurations" % (len(recs), len(lines)))

    # ---- (2) event-reuse histories (C07 driver)
    from checks import c07 as c07mod
    cheap, costly = c07mod.spec(chk, True)
    exe7 = build.harness("asan", "c07_history", ["c07_history.cc"])
    for label, spec_lines, nt in (("cheap", cheap, 2 if quick else 10), ("costly", costly[:8 if quick else 60], 1)):
        f = tempfile.NamedTemporaryFile("w", suffix=".spec", delete=False, dir=build.variant_dir("asan"))
        f.write("\n".join(spec_lines) + "\n")
        f.close()
        nsh = NCPU * 2

        def one(shard):
            return (shard,) + run([exe7, f.name, str(chk.seed), str(nt), str(shard), str(nsh)], timeout=7200, env=build.lib_env("asan", env))

        n7 = 0
        for shard, rc, out, err in pmap(one, list(range(nsh)), jobs=NCPU):
            if rc != 0:
                report(chk, "c07_history", rc, err, "%s shard %d" % (label, shard))
            for ln in out.splitlines():
                if ln.startswith("{"):
                    r = json.loads(ln)
                    n7 += r.get("evaluations", 0)
        os.unlink(f.name)
        events += n7
        distinct += len(spec_lines)
        drivers["c07_history(%s)" % label] = {"configurations": len(spec_lines), "evaluations": n7}

    # ---- (3) optional drivers that exist once their checks are built: MDL operation (C10), gA sampler (C14)
    import importlib
    for name in ("c05", "c10", "c14"):
        try:
            m = importlib.import_module("checks." + name)
        except ImportError:
            continue
        if not hasattr(m, "run_under"):
            continue
        n, d, info = m.run_under(chk, "asan", env, quick, report)
        events += n
        distinct += d
        drivers[name] = info

    # ---- (4) the same drivers with every debug / verbosity / trace switch of the library on (switches are configuration too;
    #          their code paths index the same tables).  The harness points std::cerr/std::clog at /dev/null.
    denv = dict(env)
    denv.update({"VERIF_DEBUG_FLAGS": "1", "BXDECAY0_TRACE_BB": "1", "BXDECAY0_TRACE_GAUSS": "1", "BXDECAY0_TRACE_GENBBSUB": "1",
                 "BXDECAY0_TRACE_FE12": "1", "BXDECAY0_TRACE_FERMI": "1", "BXDECAY0_TRACES": "1"})
    dl = [l for l in lines if l.startswith("B ")][:: (6 if quick else 1)]
    dcells = [l for l in lines if l.startswith("D ")]
    dl += dcells[:: (40 if quick else 6)]
    gl = ["D %s 0 %d 0 4.3 0 4.3 0 0 0.003 0" % (nuc, mode) for nuc in ("Se82", "Mo100", "Cd116", "Nd150") for mode in (21, 22, 23, 24)]
    dl += gl[:: (4 if quick else 1)]
    exe, drecs, dfails = genmon.run_specs("asan", dl, chk.seed, 40 if quick else 400, 2, True, extra_env=denv, deep_events=2000 if quick else 50000)
    for shard, rc, err in dfails:
        report(chk, "gen_monitor(debug switches on)", rc, err, "shard %d" % shard)
    nd_ = sum(r.get("events", 0) for r in drecs)
    events += nd_
    drivers["gen_monitor(debug switches on)"] = {"configurations": len(drecs), "events": nd_}
    chk.require(len(drecs) >= 0.9 * len(dl), "gen_monitor (debug switches on) reported %d of %d configurations" % (len(drecs), len(dl)))
    for name in ("c10", "c14"):
        try:
            m = importlib.import_module("checks." + name)
        except ImportError:
            continue
        if hasattr(m, "run_under"):
            n, d, info = m.run_under(chk, "asan", denv, True, report)
            events += n
            drivers[name + "(debug switches on)"] = info

    # ---- (5) valgrind memcheck on the plain build: what red-zone tools cannot see - reads of uninitialised bytes, e.g. an index of -1
    #          into a table that is a member of a larger object lands in the padding before it (inside the object, nothing for ASan)
    vlines = [l for l in lines if l.startswith("B ")]
    vd = [l for l in lines if l.startswith("D ") and "-999" not in l]
    vlines += vd[:: max(1, len(vd) // (60 if quick else 600))]
    vexe = build.harness("plain", "gen_monitor", ["gen_monitor.cc"], extra_flags="-rdynamic", libs="-ldl")
    vspec = tempfile.NamedTemporaryFile("w", suffix=".spec", delete=False, dir=build.variant_dir("plain"))
    vspec.write("\n".join(vlines) + "\n")
    vspec.close()
    vsh = NCPU * 2

    def vg(shard):
        cmd = ["valgrind", "-q", "--error-exitcode=99", "--track-origins=no", "--errors-for-leak-kinds=none", "--leak-check=no",
               vexe, vspec.name, str(chk.seed), "6" if quick else "40", "2", "1", str(shard), str(vsh), "0"]
        return (shard,) + run(cmd, timeout=7200, env=build.lib_env("plain", {"BXDECAY0_DBD_GA_DATA_DIR": gadir}))

    vevents = 0
    vok = 0
    for shard, rc, out, err in pmap(vg, list(range(vsh)), jobs=NCPU):
        for ln in out.splitlines():
            if ln.startswith("{") and '"events"' in ln:
                try:
                    vevents += json.loads(ln).get("events", 0)
                except ValueError:
                    pass
        if rc == 0:
            vok += 1
            continue
        if rc is None:
            chk.inconclusive_("valgrind shard %d: watchdog fired" % shard)
            continue
        m = re.search(r"==\d+== ([A-Z][^\n]*)\n==\d+==    at 0x[0-9A-F]+: ([^\n(]+)", err)
        fr = re.findall(r"==\d+==    (?:at|by) 0x[0-9A-F]+: (bxdecay0::[\w:~]+)", err)
        key = "memcheck:%s|%s" % ((m.group(1).strip() if m else "error")[:60], "|".join(fr[:2]) if fr else "?")
        chk.violation(key, "valgrind memcheck (plain build, shard %d): %s" % (shard, err[:1200]), {"stderr": err[:6000], "cmd": "valgrind %s %s %d ... %d %d" % (vexe, "<spec>", chk.seed, shard, vsh)})
    os.unlink(vspec.name)
    events += vevents
    drivers["gen_monitor(valgrind memcheck, plain build)"] = {"configurations": len(vlines), "events": vevents, "clean_processes": vok}
    chk.require(vevents >= 2000, "valgrind pass generated only %d events" % vevents)

    chk.require(active, "sanitizer runtime not active")
    chk.require(events >= 10000, "too few events generated under the sanitizers (%d)" % events)
    chk.coverage.update({
        "evaluations": events,
        "distinct_nontrivial": distinct,
        "rule": "the generation drivers are re-run in the ASan+UBSan build (-fno-sanitize-recover=all, -D_GLIBCXX_ASSERTIONS, "
                "-D_GLIBCXX_SANITIZE_VECTOR, quarantine 256 MB): hostile-tape monitor over all background names and sampled double-beta "
                "configurations incl. windows reaching the end of the 1-keV tables, event-reuse histories, post-generation operations, "
                "gA sampler; requests that must be refused (windows above the range, beyond the tables, inverted, one-sided); a pass with every debug/trace switch on; "
                "decay0_divdif is interposed (harness/tablewrap.h) so that its two look-up tables are exact-size heap copies - an index of -1 or N "
                "into BJ69::plog69 lands in padding ASan does not poison; a valgrind memcheck pass on the plain build (uninitialised reads: an index of -1 into a "
                "member table lands in the object's own padding); every aborted process is one report keyed kind|frame0|frame1; distinct = distinct (configuration, branch signature)",
        "samples": [{"driver": k, **v} for k, v in drivers.items()],
        "sanitizer_selftest": "use-after-free, in-capacity vector index and signed overflow canaries all fired" if active else "FAILED",
        "drivers": drivers,
    })
    chk.assumptions += ["red-zone tools miss intra-object overflows and recycled memory (Song et al.); the quarantine is raised to keep freed particle vectors poisoned",
                        "libgsl and libstdc++ are not instrumented"]
    chk.finish()


if __name__ == "__main__":
    main_guard(main)
