#!/usr/bin/env python3
"""C05 - a published nuclide name selects exactly one decay scheme; catalogues agree."""
import json
import os
import re
import sys
import tempfile

sys.path.insert(0, os.path.dirname(os.path.dirname(os.path.abspath(__file__))))
from vlib import build, genmon, schemes
from vlib.common import Check, NCPU, REPO, main_guard, pmap, run

BKG_TITLE = "List of standard radioactive isotopes (background/calibration)"
DBD_TITLE = "List of supported  double beta decay isotopes"


ELEMENTS = ("n H He Li Be B C N O F Ne Na Mg Al Si P S Cl Ar K Ca Sc Ti V Cr Mn Fe Co Ni Cu Zn Ga Ge As Se Br Kr Rb Sr Y Zr Nb Mo Tc "
            "Ru Rh Pd Ag Cd In Sn Sb Te I Xe Cs Ba La Ce Pr Nd Pm Sm Eu Gd Tb Dy Ho Er Tm Yb Lu Hf Ta W Re Os Ir Pt Au Hg Tl Pb Bi "
            "Po At Rn Fr Ra Ac Th Pa U").split()


def fn_name(part):
    return re.sub(r"[^A-Za-z0-9]", "", part)


def scan_headers():
    """Scheme functions exported by the library headers: (i_random&, event&, double, double&) and *low(i_random&, event&, int)."""
    d = os.path.join(REPO, "bxdecay0")
    scheme, low = {}, {}
    for fn in sorted(os.listdir(d)):
        if not fn.endswith(".h"):
            continue
        txt = open(os.path.join(d, fn), encoding="latin-1").read()
        txt = re.sub(r"//[^\n]*", "", txt)
        for m in re.finditer(r"void\s+(\w+)\s*\(\s*i_random\s*&\s*\w*\s*,\s*event\s*&\s*\w*\s*,\s*(?:const\s+)?double\s+\w*\s*,\s*double\s*&\s*\w*\s*\)", txt):
            scheme[m.group(1)] = fn
        for m in re.finditer(r"void\s+(\w+low)\s*\(\s*i_random\s*&\s*\w*\s*,\s*event\s*&\s*\w*\s*,\s*(?:const\s+)?int\s+\w*\s*\)", txt):
            low[m.group(1)] = fn
    return scheme, low


def write_table(path, scheme, low):
    with open(path, "w") as f:
        for h in sorted(set(scheme.values()) | set(low.values())):
            f.write("#include <bxdecay0/%s>\n" % h)
        f.write("#include <functional>\n#include <map>\n#include <string>\n")
        f.write("struct Registry {\n  std::map<std::string, std::function<void(bxdecay0::i_random &, bxdecay0::event &, double, double &)>> scheme;\n"
                "  std::map<std::string, std::function<void(bxdecay0::i_random &, bxdecay0::event &, int)>> low;\n};\n")
        f.write("static Registry registry() {\n  Registry r;\n")
        for s in sorted(scheme):
            f.write('  r.scheme["%s"] = [](bxdecay0::i_random & p, bxdecay0::event & e, double a, double & b) { bxdecay0::%s(p, e, a, b); };\n' % (s, s))
        for s in sorted(low):
            f.write('  r.low["%s"] = [](bxdecay0::i_random & p, bxdecay0::event & e, int l) { bxdecay0::%s(p, e, l); };\n' % (s, s))
        f.write("  return r;\n}\n")


def dispatch(chk, variant, nev, env=None, on_fail=None):
    """Part 1 (dispatch through genbbsub against the schemes themselves) in the given build variant."""
    scheme, low = scan_headers()
    bdir = build.build(variant, targets=("BxDecay0",))
    gen_dir = os.path.join(bdir, "gen")
    os.makedirs(gen_dir, exist_ok=True)
    write_table(os.path.join(gen_dir, "c05_table.inc"), scheme, low)

    readme_bkg = schemes.readme_bullets(BKG_TITLE)
    readme_dbd = schemes.readme_bullets(DBD_TITLE)
    lis_bkg = schemes.background_names()
    lis_dbd = schemes.dbd_names()
    levels = schemes.readme_dbd_levels()
    table = schemes.ref_dbd_table()
    # daughter nucleus from (Z, A) of the reference table (the README's "Sm154 -> Gd144" is a typo for Gd154)
    # (mass number from the parent's name: double beta decay conserves A; the reference's Adbb has a typo for Dy158)
    daughters = {iso: "%s%s" % (ELEMENTS[int(abs(t["Zdbb"]))], re.sub(r"^[A-Za-z]+", "", iso)) for iso, t in table.items()}

    # ---- part 1: dispatch
    lines = []
    seen = set()
    for (name, ann) in readme_bkg:
        full = ann or name
        parts = [p for p in full.split("+") if p]
        fns = [fn_name(parts[0])] + [fn_name(p) for p in parts[1:] if fn_name(p) in scheme]
        for published in sorted({name, full} | {l for l in lis_bkg if l.split("+")[0] == name}):
            if published not in seen:
                seen.add(published)
                lines.append("B %s %s" % (published, " ".join(fns)))
    for (name, ann) in readme_dbd:
        t = table.get(name)
        lv = levels.get(name, [])
        d = daughters.get(name)
        chain = [fn_name(p) for p in (ann or name).split("+")[1:]]
        lowfn = (d + "low") if d else "-"
        if chain:
            lowfn = chain[0] + "low"
        elif len(lv) <= 1 and lowfn not in low:
            lowfn = "-"   # ground state only: no de-excitation needed
        # every published form of the name: the README's short form, its long form ("Pb214 (for Pb214+Po214)") and the list-file form
        forms = sorted({name} | ({ann} if ann else set()) | {l for l in lis_dbd if l.split("+")[0] == name})
        for (idx, spin, e) in (lv or [(0, "0+", 0.0)]):
            for mode in (1, 3, 7, 11, 12, 20):
                if t and genmon.rule_accepts(table, name, idx, mode):
                    # the level energy (keV) the de-excitation routine must be entered with: from the reference table (itself
                    # cross-checked with the README level list by C03), never from the code under test
                    for published in forms:
                        lines.append("D %s %d %d %d %s %s" % (published, idx, mode, int(round(t["levels"][idx])), lowfn, " ".join(chain)))
                    break
    exe = build.harness(variant, "c05_dispatch", ["c05_dispatch.cc"], extra_flags="-I" + gen_dir)
    def one(chunk):
        spec = tempfile.NamedTemporaryFile("w", suffix=".spec", delete=False, dir=bdir)
        spec.write("\n".join(chunk) + "\n")
        spec.close()
        r = run([exe, spec.name, str(chk.seed), str(nev)], timeout=7200, env=build.lib_env(variant, env))
        os.unlink(spec.name)
        return r

    out = ""
    for rc, o, err in pmap(one, [lines[k::NCPU] for k in range(NCPU)], jobs=NCPU):
        out += o
        if rc == 0:
            continue
        if on_fail:
            on_fail(chk, "c05_dispatch", rc, err, "dispatch")
        elif rc is not None and (rc < 0 or rc >= 128):
            sig = -rc if rc < 0 else rc - 128
            chk.violation("c05_dispatch|signal%d" % sig, "the dispatch harness died with signal %d: %s" % (sig, err[-600:]), {"stderr": err[-3000:]})
        else:
            chk.inconclusive_("c05_dispatch exited %s: %s" % (rc, err[-600:]))
    return lines, out, table, readme_bkg, readme_dbd, lis_bkg, lis_dbd, levels, scheme, low


def run_under(chk, variant, env, quick, report):
    """C08 hook: the dispatch workload (all published names, all three start modes of genbbsub) in a sanitizer build."""
    lines, out = dispatch(chk, variant, 60 if quick else 2000, env, report)[:2]
    events = distinct = 0
    for ln in out.splitlines():
        if ln.startswith("{"):
            r = json.loads(ln)
            events += r["events"]
            distinct += r["distinct_signatures"]
    return events, distinct, {"configurations": len(lines), "events": events}


def main():
    chk = Check("C05", "exploration")
    quick = chk.tier == "quick"
    lines, out, table, readme_bkg, readme_dbd, lis_bkg, lis_dbd, levels, scheme, low = dispatch(chk, "plain", 3000 if quick else 100000)
    bdir = build.build("plain", targets=("BxDecay0",))
    events = 0
    distinct = 0
    nconf = 0
    samples = []
    for ln in out.splitlines():
        if not ln.startswith("{"):
            continue
        r = json.loads(ln)
        nconf += 1
        events += r["events"]
        distinct += r["distinct_signatures"]
        if r.get("sample") and len(samples) < 2:
            samples.append({"config": r["config"], **r["sample"]})
        for m in r["mismatches"]:
            chk.violation(m["key"], "%s: %s [%d events]" % (r["config"], m["detail"], m["count"]), {"config": r["config"], **m})
    chk.require(nconf >= len(lines), "dispatch harness reported %d of %d configurations" % (nconf, len(lines)))

    # ---- part 2: catalogues
    ref_bkg = set()
    L = schemes.ref_lines()
    i0 = next(i for i, l in enumerate(L) if re.match(r"^\s+if\(i2bbs\.eq\.2\) then", l) and i > 2500)
    for l in L[i0:i0 + 400]:
        m = re.match(r"^\s+chnuclide='([A-Za-z0-9+-]+)'", l)
        if m and len(m.group(1)) > 2 and m.group(1) not in ("Artificial", "Compton", "Moller"):
            ref_bkg.add(m.group(1))
    cand_b = set(n for n, _ in readme_bkg) | set(l.split("+")[0] for l in lis_bkg) | ref_bkg | set(s for s in scheme if not s.endswith("low"))
    cand_b |= {"Ta180m-B-", "Ta180m-EC"}
    cand_b = {c for c in cand_b if not c.startswith("decay0") and c not in ("PbAtShell",)}
    cand_d = set(n for n, _ in readme_dbd) | set(lis_dbd) | set(table)
    # names that merely CONTAIN a published name after leading junk are not published names (the matching of trailing junk is the
    # prefix-matching finding recorded under C06 and is not probed here)
    cand_b |= {pre + n for n in sorted(lis_bkg) for pre in ("x", " ", "my_")}
    cand_d |= {pre + n for n in sorted(lis_dbd) for pre in ("x", " ", "A=100:")}
    # published names cut short by one or two characters ('Pa234' for 'Pa234m', 'Ta180m-B' for 'Ta180m-B-', 'Mo10' for 'Mo100'): a name
    # nobody publishes, unless the shorter form is itself published
    pub_b = set(n for n, _ in readme_bkg) | set(lis_bkg) | set(l.split("+")[0] for l in lis_bkg)
    pub_d = set(n for n, _ in readme_dbd) | set(lis_dbd) | set(l.split("+")[0] for l in lis_dbd)
    # (a candidate that merely extends a published name is the prefix matching recorded under C06 and is not probed)
    ext = lambda c, pub: any(c.startswith(q) and c != q for q in pub)
    cand_b |= {n[:-k] for n in pub_b for k in (1, 2) if len(n) - k >= 3 and n[:-k] not in pub_b and not ext(n[:-k], pub_b)}
    cand_d |= {n[:-k] for n in pub_d for k in (1, 2) if len(n) - k >= 3 and n[:-k] not in pub_d and not ext(n[:-k], pub_d)}
    cand_b.add("Ta180m")
    cfile = tempfile.NamedTemporaryFile("w", suffix=".cand", delete=False, dir=bdir)
    for c in sorted(cand_b):
        cfile.write("B %s\n" % c)
    for c in sorted(cand_d):
        cfile.write("D %s\n" % c)
    cfile.close()
    exe2 = build.harness("plain", "c05_catalogue", ["c05_catalogue.cc"])
    rc, out, err = run([exe2, cfile.name], timeout=600, env=build.lib_env("plain"))
    os.unlink(cfile.name)
    cat = None
    for ln in out.splitlines():
        if ln.startswith("{"):
            cat = json.loads(ln)
    if cat is None:
        chk.inconclusive_("c05_catalogue produced no output (rc=%s): %s" % (rc, err[-400:]))
    else:
        acc_b = {a["name"] for a in cat["accepted"] if a["kind"] == "B" and a["accepted"]}
        acc_d = {a["name"] for a in cat["accepted"] if a["kind"] == "D" and a["accepted"]}
        base = lambda s: {x.split("+")[0] for x in s}
        sets = {
            "background": (base(n for n, _ in readme_bkg), base(cat["lis_background"]), acc_b),
            "dbd": (base(n for n, _ in readme_dbd), base(cat["lis_dbd"]), acc_d),
        }
        for catname, (rd, ls_, ac) in sets.items():
            for n in sorted(rd - ls_):
                chk.violation("catalogue|%s|readme-not-in-lis|%s" % (catname, n), "%s is in the README appendix but not in the .lis file" % n, {"name": n})
            for n in sorted(ls_ - rd):
                chk.violation("catalogue|%s|lis-not-in-readme|%s" % (catname, n), "%s is in the .lis file but not in the README appendix" % n, {"name": n})
            for n in sorted((rd | ls_) - ac):
                why = [a["why"] for a in cat["accepted"] if a["name"] == n]
                chk.violation("catalogue|%s|published-not-accepted|%s" % (catname, n), "published name %s is refused by the generator: %s" % (n, why), {"name": n})
            for a in cat["accepted"]:
                if a["accepted"] and a["why"] == "EMPTY-EVENTS" and a["name"].split("+")[0] in (rd | ls_) and (a["kind"] == "B") == (catname == "background"):
                    chk.violation("catalogue|%s|published-generates-nothing|%s" % (catname, a["name"]), "the published name %s initialises but every event is empty" % a["name"], {"name": a["name"]})
            for n in sorted(ac - (rd | ls_)):
                chk.violation("catalogue|%s|accepted-not-published|%s" % (catname, n),
                              "the generator accepts and generates '%s', which neither the README appendix nor the .lis file publishes" % n, {"name": n})
        # list files must be identical to what the accessor returns
        if set(cat["lis_background"]) != set(lis_bkg) or set(cat["lis_dbd"]) != set(lis_dbd):
            chk.violation("catalogue|accessor-differs-from-file", "background_isotopes()/dbd_isotopes() differ from the .lis files", {})
        # modes: label <-> mode bijection, README table rows
        labels = {}
        readme_modes = {}
        for m in re.finditer(r"``DBDMODE_(\d+)``\s+``([^`]+)``\s+(\S+)", schemes.readme_text()):
            readme_modes[int(m.group(1))] = (m.group(2), m.group(3))
        for md in cat["modes"]:
            k = md["mode"]
            if md["record_mode"] != k or md["label_of_mode"] != md["label"] or md["mode_of_label"] != k or md["legacy_of_mode"] != md["legacy"]:
                chk.violation("modes|roundtrip|%d" % k, "mode %d: label/mode/legacy accessors do not round-trip: %r" % (k, md), {"mode": md})
            if md["label"] in labels or not md["label"]:
                chk.violation("modes|duplicate-label|%s" % md["label"], "label %r names modes %d and %d" % (md["label"], labels.get(md["label"], -1), k), {})
            labels[md["label"]] = k
            rm = readme_modes.get(k)
            if rm is None or rm[0] != md["label"] or (rm[1] != "NA" and int(rm[1]) != md["legacy"]) or (rm[1] == "NA" and md["legacy"] != -1):
                chk.violation("modes|readme|%d" % k, "mode %d: README row %r vs library (label %r, legacy %d)" % (k, rm, md["label"], md["legacy"]), {})
            if md["esum"] != (k in genmon.WINDOW_MODES):
                chk.violation("modes|esum|%d" % k, "mode %d: dbd_supports_esum_range = %s, documented window-capable set says %s" % (k, md["esum"], k in genmon.WINDOW_MODES), {})
        for k in readme_modes:
            if k not in [m["mode"] for m in cat["modes"]]:
                chk.violation("modes|readme-only|%d" % k, "README lists DBDMODE_%d, dbd_modes() does not" % k, {})
        ncat = len(cand_b) + len(cand_d) + len(cat["modes"])
        events += ncat
        distinct += ncat
        chk.coverage.update({"candidate_names_probed": {"background": len(cand_b), "dbd": len(cand_d)},
                             "accepted": {"background": len(acc_b), "dbd": len(acc_d)},
                             "published": {"readme_background": len(readme_bkg), "lis_background": len(lis_bkg),
                                           "readme_dbd": len(readme_dbd), "lis_dbd": len(lis_dbd)},
                             "modes": len(cat["modes"])})
    chk.coverage.update({
        "evaluations": events,
        "distinct_nontrivial": distinct,
        "rule": "dispatch: for every published background name (README form, list-file form) and every tabulated double-beta level, "
                "N tapes are run through genbbsub(name) and through the scheme functions the README names for it, called directly; the events "
                "must be bit-identical; catalogue: README bullets, .lis files (through the real accessors) and the names accepted by "
                "decay0_generator over the candidate universe README + .lis + reference names + exported scheme symbols must be equal sets; "
                "distinct = distinct (configuration, branch signature) pairs + catalogue entries",
        "samples": samples + [{"dispatch_line": l} for l in lines[:3]],
        "dispatch_configurations": nconf,
        "exhaustive": False,
    })
    chk.assumptions += ["a daughter scheme follows its parent unless the parent emitted an alpha (Bi212/Bi214), as the README annotations '(for X+Y)' describe",
                        "daughters without an exported scheme function (Se79m, Pb207m, Ba137m) live inside the parent's scheme"]
    chk.finish()


if __name__ == "__main__":
    main_guard(main)
