#!/usr/bin/env python3
"""C15 - malformed input files raise an error; never a crash, hang or garbage load."""
import glob
import hashlib
import os
import re
import shutil
import sys

sys.path.insert(0, os.path.dirname(os.path.dirname(os.path.abspath(__file__))))
from vlib import build, gadata
from vlib.common import Check, NCPU, REPO, REPLAY_DIR, Rng, main_guard, pmap, run, sanitizer_key

TARGETS = ["fz_reader", "fz_ga", "fz_cdf"]
FUZZ_ENV = {"ASAN_OPTIONS": "abort_on_error=1:detect_leaks=0:halt_on_error=1:quarantine_size_mb=8:allocator_may_return_null=0",
            "UBSAN_OPTIONS": "print_stacktrace=1:halt_on_error=1", "VERIF_FZ_TMP": "/dev/shm" if os.path.isdir("/dev/shm") else "/tmp"}


def build_target(name):
    return build.harness("fuzz", name, [os.path.join("fuzz", name + ".cc")], extra_flags="-fsanitize=fuzzer")


def seed_corpus(chk, root):
    """Seed corpus: the shipped sample files, the Test table, synthetic gA files; plus a structure-aware mutation pass."""
    rng = Rng(chk.seed, 1515)
    corp = {t: os.path.join(root, "corpus", t) for t in TARGETS}
    for d in corp.values():
        os.makedirs(d, exist_ok=True)
    # reader
    samples = sorted(glob.glob(os.path.join(REPO, "resources/samples/*/*.d0t")))
    texts = [open(p, "rb").read()[:3000] for p in samples[:3]]
    texts.append(b"0 0 K40\n1\n3  0 0.1 0.2 0.3\n\n1 1.5 K40\n2\n1  0 0.1 0 0\n3 1e-9 0 0 1\n\n")
    hostile = [b"0", b"-1", b"1e308", b"nan", b"2147483648", b"4294967296", b"", b"99", b"-2147483648", b"1e-400", b"0x10", b"inf",
               b"-4294967294", b"-4294967295", b"-4294967293", b"4294967298"]
    k = 0
    # targeted: a record whose particle count is -(2^32 - n) for its n particles (wraps to n in an unsigned), read from the start
    for t in texts:
        L = t.split(b"\n")
        if len(L) >= 2 and L[1].strip().isdigit():
            npart = int(L[1].strip())
            if 0 < npart < 50:
                L2 = list(L)
                L2[1] = b"-%d" % (2 ** 32 - npart)
                open(os.path.join(corp["fz_reader"], "w%03d" % k), "wb").write(bytes([0, 0]) + b"\n".join(L2))
                k += 1
    for t in texts:
        for sm in range(6):
            open(os.path.join(corp["fz_reader"], "s%03d" % k), "wb").write(bytes([sm, (sm * 5) % 6]) + t)
            k += 1
        lines = t.split(b"\n")
        for _ in range(40):
            ls = list(lines)
            op = rng.randint(0, 4)
            i = rng.randint(0, max(0, len(ls) - 1))
            if op == 0 and ls:
                del ls[i]
            elif op == 1 and ls:
                ls.insert(i, ls[rng.randint(0, len(ls) - 1)])
            elif op == 2 and ls:
                toks = ls[i].split()
                if toks:
                    toks[rng.randint(0, len(toks) - 1)] = rng.choice(hostile)
                    ls[i] = b" ".join(toks)
            elif op == 3:
                ls = ls[:i]
            else:
                ls.insert(i, b"\xff")
            open(os.path.join(corp["fz_reader"], "m%03d" % k), "wb").write(bytes([rng.randint(0, 5), rng.randint(0, 5)]) + b"\n".join(ls))
            k += 1
    # gA files
    test_pdf = open(os.path.join(REPO, "resources/data/dbd_gA/Test/g0/tab_pdf.data"), "rb").read()
    gfiles = [(1, test_pdf)]
    base = os.path.join(root, "gaseed")
    for n in (2, 3, 5, 8):
        gadata.synth(base + str(n), "Test", "g0", rng, n=n, shape=rng.choice(["flat", "phase", "steep"]), layout="test")
        d = os.path.join(base + str(n), "data/dbd_gA/v1.0/Test/g0")
        gfiles.append((1, open(os.path.join(d, "tab_pdf.data"), "rb").read()))
        gfiles.append((0, open(os.path.join(d, "tab_ocdf.data"), "rb").read()))
    # tables whose grid reaches beyond the maximum energy sum (E_min + E_max > E_sum, as the documented real tables): exact zeros on the
    # nodes above it - and variants with one such node positive, which the loader's own rule refuses
    for n in (3, 6):
        gadata.synth(base + "x" + str(n), "Test", "g0", rng, n=n, shape="phase", layout="exceeds")
        d = os.path.join(base + "x" + str(n), "data/dbd_gA/v1.0/Test/g0")
        t = open(os.path.join(d, "tab_pdf.data"), "rb").read()
        gfiles.append((1, t))
        lines = t.split(b"\n")
        rows = [i for i, l in enumerate(lines) if l and not l.startswith(b"#") and not l.startswith(b"Probability") and len(l.split()) >= 1 and i > 3]
        for ri in rows:
            toks = lines[ri].split()
            zeros = [j for j, v in enumerate(toks) if float(v) == 0.0]
            if zeros:
                for j in (zeros[0], zeros[-1]):
                    tk = list(toks)
                    tk[j] = b"1.0000000e-03"
                    ls = list(lines)
                    ls[ri] = b" ".join(tk) + b" "
                    gfiles.append((1, b"\n".join(ls)))
    k = 0
    # structure-preserving degenerate tables: right header, right row lengths, but the values all zero / one positive corner node /
    # denormal / equal (the generic mutators practically never produce these)
    for sel, t in list(gfiles):
        if sel != 1:
            continue
        lines = t.split(b"\n")
        hdr = next((i for i, l in enumerate(lines) if l.startswith(b"Probability")), None)
        if hdr is None:
            continue
        for variant in range(4):
            ls = list(lines)
            first = True
            for i in range(hdr + 1, len(ls)):
                toks = ls[i].split()
                if not toks or ls[i].lstrip().startswith(b"#"):
                    continue
                if variant == 0:
                    new = [b"0.0"] * len(toks)
                elif variant == 1:
                    new = [b"0.0"] * len(toks)
                    if first:
                        new[0] = b"1.0"
                elif variant == 2:
                    new = [b"4.9e-324"] * len(toks)
                else:
                    new = [b"1.0"] * len(toks)
                first = False
                ls[i] = b" ".join(new)
            gfiles.append((1, b"\n".join(ls)))
    # header corner cases on a valid body: E_max one or a few ulps above E_min (vanishing step), E_min = 0, E_max = E_sum, 2 E_min = E_sum
    import struct
    for sel, t in list(gfiles)[:9]:
        lines = t.split(b"\n")
        hdr = next((i for i, l in enumerate(lines) if l.startswith(b"Probability") or l.startswith(b"CumulativeProbability")), None)
        if hdr is None or hdr == 0:
            continue
        toks = lines[hdr].split()
        try:
            emin, esum = float(toks[1]), float(lines[hdr - 1].split()[0])
        except (ValueError, IndexError):
            continue
        ulps = lambda x, k: struct.unpack("<d", struct.pack("<q", struct.unpack("<q", struct.pack("<d", x))[0] + k))[0]
        nxt = ulps(emin, 1)
        for variant in [(emin, nxt), (emin, emin * (1 + 1e-15)), (0.0, float(toks[2])), (emin, esum), (esum / 2, float(toks[2])), (emin, emin)] + [(emin, ulps(emin, k)) for k in range(2, 13)]:
            ls = list(lines)
            ls[hdr] = b" ".join([toks[0], repr(variant[0]).encode(), repr(variant[1]).encode()] + toks[3:])
            gfiles.append((sel, b"\n".join(ls)))
    # c.d.f. rows that break one clause of the row predicate each, everything else valid: first value negative, a value above 1, one
    # decreasing step, last value below 1, first value of an E2 row negative (rows are re-encoded with the documented '^0 ... !1' shorthand)
    for sel, t in list(gfiles):
        if sel != 0:
            continue
        lines = t.split(b"\n")
        rows = [i for i, l in enumerate(lines) if l.startswith(b"^") or b"!" in l or (i > 2 and l and l[:1].isdigit())]
        rows = [i for i in rows if len(lines[i].split()) >= 3]
        if not rows:
            continue
        for ri in (rows[0], rows[min(1, len(rows) - 1)], rows[len(rows) // 2]):
            toks = lines[ri].split()
            for variant in range(5):
                tk = list(toks)
                j0 = 1 if tk[0].startswith(b"^") else 0
                if variant == 0:
                    tk[j0] = b"-5"
                elif variant == 1:
                    tk[max(j0, len(tk) // 2)] = b"20000000"
                elif variant == 2 and len(tk) - j0 >= 3:
                    tk[j0], tk[j0 + 1] = tk[j0 + 1], tk[j0]
                elif variant == 3:
                    tk[-1] = tk[-2] if len(tk) >= 2 and not tk[-2].startswith(b"^") else b"1"
                else:
                    tk[j0] = b"-0.25"
                ls = list(lines)
                ls[ri] = b" ".join(tk)
                gfiles.append((0, b"\n".join(ls)))
    for sel, t in gfiles:
        open(os.path.join(corp["fz_ga"], "s%03d" % k), "wb").write(bytes([sel]) + t)
        k += 1
        lines = t.split(b"\n")
        for _ in range(30):
            ls = list(lines)
            i = rng.randint(0, max(0, len(ls) - 1))
            op = rng.randint(0, 3)
            if op == 0 and ls:
                del ls[i]
            elif op == 1 and ls:
                toks = ls[i].split()
                if toks:
                    toks[rng.randint(0, len(toks) - 1)] = rng.choice(hostile)
                    ls[i] = b" ".join(toks)
            elif op == 2 and ls:
                ls.insert(i, ls[rng.randint(0, len(ls) - 1)])
            else:
                ls = ls[:i]
            open(os.path.join(corp["fz_ga"], "m%03d" % k), "wb").write(bytes([sel]) + b"\n".join(ls))
            k += 1
        for ln in lines:
            if ln.startswith(b"^") or b"!1" in ln:
                open(os.path.join(corp["fz_cdf"], "c%03d" % k), "wb").write(ln[:2000])
                k += 1
    for i, s in enumerate([b"^0 1.5 ^1 2.5 ^3 4.25 !1", b"^2 1 2 3 !1", b"!1", b"^15 9.9999 !1", b"^-1 5", b"^99 1", b"^1 ^0 5 !1"]):
        open(os.path.join(corp["fz_cdf"], "h%02d" % i), "wb").write(s)
    return corp


def triage(chk, target, exe, artifact, root):
    """Re-run one artifact alone (no fork) to obtain the report; returns (key, text)."""
    rc, out, err = run([exe, artifact, "-timeout=25"], timeout=120, env=build.lib_env("fuzz", FUZZ_ENV))
    name = os.path.basename(artifact)
    if rc == 0:
        if name.startswith("timeout-") or name.startswith("slow-unit-"):
            # re-run stand-alone under a generous watchdog: a hang only if it times out again
            rc2, o2, e2 = run([exe, artifact, "-timeout=60"], timeout=180, env=build.lib_env("fuzz", FUZZ_ENV))
            if rc2 == 0:
                return None, "timeout artifact does not reproduce stand-alone (inconclusive)"
            return "%s|hang" % target, "input makes the loader run longer than 60 s: " + e2[-400:]
        return None, "artifact does not reproduce"
    m = re.search(r"VERIF-PREDICATE-VIOLATION: (.*)", err)
    if m:
        return "%s|predicate|%s" % (target, re.sub(r"[^A-Za-z0-9 ]", "", m.group(1))[:70].strip().replace(" ", "-")), m.group(1)
    k = sanitizer_key(err)
    if k:
        return "%s|%s" % (target, k), err[err.find("ERROR"):][:1200] if "ERROR" in err else err[-1200:]
    if "out-of-memory" in err or "malloc limit" in err.lower() or "-malloc_limit_mb" in err:
        fr = re.findall(r"in (bxdecay0::[\w:~]+)", err)
        return "%s|allocation-without-bound|%s" % (target, fr[0] if fr else "?"), err[-1200:]
    if "timeout" in err.lower() and "libFuzzer" in err:
        fr = re.findall(r"in (bxdecay0::[\w:~]+)", err)
        return "%s|hang|%s" % (target, fr[0] if fr else "?"), err[-1200:]
    if "deadly signal" in err:
        fr = re.findall(r"in (bxdecay0::[\w:~]+|gsl_\w+)", err)
        return "%s|deadly-signal|%s" % (target, "|".join(fr[:2]) if fr else "?"), err[-1500:]
    fr = re.findall(r"in (bxdecay0::[\w:~]+)", err)
    return "%s|abort|%s" % (target, fr[0] if fr else "?"), err[-1200:]


def fuzz_target(chk, target, corpdir, root, runs):
    exe = build_target(target)
    art = os.path.join(root, "artifacts", target) + "/"
    os.makedirs(art, exist_ok=True)
    work = os.path.join(root, "work", target)
    os.makedirs(work, exist_ok=True)
    cmd = [exe, work, corpdir, "-fork=%d" % NCPU, "-ignore_crashes=1", "-ignore_timeouts=1", "-ignore_ooms=1", "-runs=%d" % runs, "-max_len=6000",
           "-timeout=10", "-malloc_limit_mb=512", "-rss_limit_mb=2048", "-artifact_prefix=" + art, "-seed=%d" % (chk.seed + 1), "-print_final_stats=1",
           "-max_total_time=%d" % (600 if chk.tier == "quick" else 3600 * 5)]
    # (in fork mode a target whose every child dies at once - a defect on the common path - makes no progress towards -runs: the time
    #  limit ends the job, the artifacts are triaged as usual)
    rc, out, err = run(cmd, timeout=(1500 if chk.tier == "quick" else 3600 * 6), env=build.lib_env("fuzz", FUZZ_ENV), cwd=root)
    stats = {}
    m = re.findall(r"#(\d+): cov: (\d+) ft: (\d+) corp: (\d+)", err)
    if m:
        stats = {"execs": int(m[-1][0]), "cov": int(m[-1][1]), "features": int(m[-1][2]), "corpus": int(m[-1][3])}
    else:
        m2 = re.findall(r"stat::number_of_executed_units:\s*(\d+)", err)
        if m2:
            stats = {"execs": int(m2[-1])}
    if rc is None:
        chk.inconclusive_("%s: fuzzer watchdog fired" % target)
    arts = sorted(glob.glob(art + "*"))
    seen = {}
    for a in arts[:400]:
        key, text = triage(chk, target, exe, a, root)
        if key is None:
            continue
        if key not in seen:
            seen[key] = (a, text)
    for key, (a, text) in seen.items():
        # keep the witness next to the replays
        d = os.path.join(REPLAY_DIR, "C15")
        os.makedirs(d, exist_ok=True)
        keep = os.path.join(d, "%s.%s" % (target, hashlib.sha1(key.encode()).hexdigest()[:10]))
        shutil.copyfile(a, keep)
        chk.violation(key, "%s: %s" % (target, text[:700]), {"target": target, "artifact": keep, "report": text[:4000], "rerun": "%s %s" % (exe, keep)})
    stats["artifacts"] = len(arts)
    stats["distinct_reports"] = len(seen)
    return stats


# ---- catalogue lists and CLI tokens: parsed once per process, so one process per case
RUNNER = r"""
#include <iostream>
#include <bxdecay0/bb_utils.h>
int main() {
  try {
    const auto & b = bxdecay0::background_isotopes();
    const auto & d = bxdecay0::dbd_isotopes();
    const auto & m = bxdecay0::dbd_modes();
    for (const auto & s : b) if (s.empty()) { std::cout << "PREDICATE empty background label\n"; return 3; }
    for (const auto & s : d) if (s.empty()) { std::cout << "PREDICATE empty dbd label\n"; return 3; }
    for (const auto & kv : m) {
      if ((int)kv.first < 1 || (int)kv.first > 24) { std::cout << "PREDICATE mode out of range " << (int)kv.first << "\n"; return 3; }
      if (kv.second.unique_label.empty()) { std::cout << "PREDICATE empty mode label\n"; return 3; }
      if (bxdecay0::dbd_mode_from_label(kv.second.unique_label) != kv.first) { std::cout << "PREDICATE label does not map back: " << kv.second.unique_label << "\n"; return 3; }
      if (kv.second.dbd_mode != kv.first) { std::cout << "PREDICATE record/key mismatch\n"; return 3; }
      { // the legacy Decay0 mode of a record is one of the enumerators: 'not applicable', or within the legacy range
        const int lg = (int)kv.second.legacy_modebb;
        if (!(lg == (int)bxdecay0::LEGACY_MODEBB_NA || lg == (int)bxdecay0::LEGACY_MODEBB_UNDEF || (lg >= (int)bxdecay0::LEGACY_MODEBB_MIN && lg <= (int)bxdecay0::LEGACY_MODEBB_MAX))) {
          std::cout << "PREDICATE legacy mode out of range " << lg << "\n"; return 3; }
      }
    }
    // what was loaded is then used: the accessors of the mode catalogue for every identifier an application may hold (a mode the
    // loaded list does not contain must be answered by an exception or a sentinel, never by reading past the catalogue)
    long answered = 0;
    for (int k = 0; k <= 31; k++) { // every value the enumeration type can hold
      try { answered += (long)bxdecay0::dbd_mode_label((bxdecay0::dbd_mode_type)k).size(); } catch (std::exception &) {}
      try { answered += (long)bxdecay0::dbd_mode_description((bxdecay0::dbd_mode_type)k).size(); } catch (std::exception &) {}
      try { answered += (long)bxdecay0::dbd_legacy_mode((bxdecay0::dbd_mode_type)k); } catch (std::exception &) {}
      try { answered += (long)bxdecay0::dbd_supports_esum_range((bxdecay0::dbd_mode_type)k); } catch (std::exception &) {}
      try { answered += (long)bxdecay0::dbd_mode_from_legacy_modebb((bxdecay0::legacy_modebb_type)k); } catch (std::exception &) {}
    }
    std::cout << "LOADED " << b.size() << ' ' << d.size() << ' ' << m.size() << ' ' << (answered != -12345) << "\n";
  } catch (std::exception & x) { std::cout << "ERROR " << x.what() << "\n"; return 0; }
  return 0;
}
"""


def catalogue_cases(chk, root, ncases):
    rng = Rng(chk.seed, 1516)
    src = os.path.join(root, "catrunner.cc")
    open(src, "w").write(RUNNER)
    exe = build.harness("asan", "c15_catrunner", [src])
    # the same runner with the catalogue code compiled in libstdc++ debug mode (checked iterators): only the three sources it needs
    pb = build.build("plain", targets=("BxDecay0",))
    reloc = os.path.join(root, "binreloc.o")
    rcc, _, errc = run(["gcc", "-O1", "-g", "-I" + os.path.join(pb, "bxdecay0"), "-I" + pb, "-c", os.path.join(REPO, "bxdecay0/BinReloc.c"), "-o", reloc], timeout=300)
    if rcc != 0:
        chk.inconclusive_("could not compile BinReloc.c for the debug-mode runner: %s" % errc[-300:])
    exe_dbg = build.harness("stldbg", "c15_catrunner_dbg",
                            [src, os.path.join(REPO, "bxdecay0/bb_utils.cc"), os.path.join(REPO, "bxdecay0/utils.cc"), os.path.join(pb, "bxdecay0/resource.cc"),
                             os.path.join(pb, "bxdecay0/relocatable_lib.cc")],
                            extra_flags="-I%s -I%s -I%s" % (pb, os.path.join(pb, "bxdecay0"), os.path.join(REPO, "bxdecay0")), objects=(reloc,), link_bx=False)
    files = ["background_isotopes.lis", "dbd_isotopes.lis", "dbd_modes.lis"]
    orig = {f: open(os.path.join(REPO, "resources/description", f), "rb").read() for f in files}
    hostile = [b"", b"-1", b"0", b"25", b"2147483648", b"99999999999999999999", b"nan", b"\x00", b"#", b"1 1", b"\xff\xfe", b"1e9"]
    cases = []
    for i in range(ncases):
        f = files[i % 3]
        lines = orig[f].split(b"\n")
        for _ in range(1 + rng.randint(0, 2)):
            op = rng.randint(0, 6)
            if not lines:
                lines = [b""]
            j = rng.randint(0, len(lines) - 1)
            if op == 0:
                del lines[j]
            elif op == 1:
                lines.insert(j, lines[rng.randint(0, len(lines) - 1)])
            elif op == 2:
                toks = lines[j].split()
                if toks:
                    toks[rng.randint(0, len(toks) - 1)] = rng.choice(hostile)
                    lines[j] = b" ".join(toks)
            elif op == 3:
                lines = lines[:j]
            elif op == 4:
                lines[j] = lines[j][: rng.randint(0, max(0, len(lines[j])))]
            elif op == 5:
                lines = [b""]
            else:
                lines.insert(j, bytes(rng.randint(0, 255) for _ in range(rng.randint(1, 40))))
        cases.append((i, f, b"\n".join(lines)))
    # targeted, in every run: the identifier column of the mode catalogue (first / third token of a record) replaced by each hostile value
    mlines = orig["dbd_modes.lis"].split(b"\n")
    recs = [k for k, l in enumerate(mlines) if l.strip() and not l.lstrip().startswith(b"#")]
    for col in (0, 2):
        for hv in hostile + [b"25", b"-3", b"999", b"21.5", b"21", b"22", b"24", b"20", b"1"]:
            ls = list(mlines)
            k = recs[rng.randint(0, len(recs) - 1)]
            toks = ls[k].split()
            if len(toks) > col:
                toks[col] = hv
                ls[k] = b" ".join(toks)
                cases.append((len(cases), "dbd_modes.lis", b"\n".join(ls)))

    cases.append((len(cases), "dbd_modes.lis", orig["dbd_modes.lis"]))   # the shipped lists themselves

    def one(case):
        i, f, content = case
        d = os.path.join(root, "res%05d" % i)
        os.makedirs(os.path.join(d, "description"))
        for g in files:
            open(os.path.join(d, "description", g), "wb").write(content if g == f else orig[g])
        rc, out, err = run([exe], timeout=60, env=build.lib_env("asan", {"BXDECAY0_RESOURCE_DIR": d}))
        if rc == 0:
            rc, out, err = run([exe_dbg], timeout=60, env=build.lib_env("plain", {"BXDECAY0_RESOURCE_DIR": d}))
        shutil.rmtree(d, ignore_errors=True)
        return i, f, content, rc, out, err

    outcomes = {"error": 0, "loaded": 0}
    for i, f, content, rc, out, err in pmap(one, cases, jobs=NCPU):
        if rc is None:
            chk.violation("catalogue|hang|" + f, "loading a mutated %s did not finish within 60 s" % f, {"file": f, "content": content.decode("latin-1")[:2000]})
        elif rc == 3:
            chk.violation("catalogue|predicate|%s|%s" % (f, out.strip().split("\n")[-1][:60]), "mutated %s loads but violates the catalogue's predicate: %s" % (f, out.strip()[-200:]),
                          {"file": f, "content": content.decode("latin-1")[:2000]})
        elif rc != 0:
            k = sanitizer_key(err) or ("signal" if rc < 0 else "exit%d" % rc)
            chk.violation("catalogue|%s|%s" % (f, k), "mutated %s: %s" % (f, err[-600:]), {"file": f, "content": content.decode("latin-1")[:2000], "stderr": err[-3000:]})
        elif out.startswith("ERROR"):
            outcomes["error"] += 1
        else:
            outcomes["loaded"] += 1
    return len(cases), outcomes


def main():
    chk = Check("C15", "exploration")
    quick = chk.tier == "quick"
    root = os.path.join(build.cache_root(), "c15.%d" % os.getpid())
    shutil.rmtree(root, ignore_errors=True)
    os.makedirs(root)
    try:
        corp = seed_corpus(chk, root)
        runs = int(os.environ.get("VERIF_FUZZ_RUNS", "200000" if quick else "20000000"))
        per = {}
        execs = 0
        features = 0
        for t in TARGETS:
            st = fuzz_target(chk, t, corp[t], root, runs if t != "fz_cdf" else runs * 2)
            per[t] = st
            execs += st.get("execs", 0)
            features += st.get("features", 0)
            chk.require(st.get("execs", 0) >= 1000, "%s executed only %s inputs" % (t, st.get("execs")))
        ncat, outcomes = catalogue_cases(chk, root, 150 if quick else 3000)
        chk.coverage.update({
            "evaluations": execs + ncat,
            "distinct_nontrivial": features + 2,
            "rule": "libFuzzer (coverage-guided, ASan+UBSan, -malloc_limit_mb=512, -timeout=10) on three in-process targets - event_reader over 1-3 files with "
                    "start/max, dbd_gA::initialize for both file kinds followed by 50 bounded shots, load_optimized_cdf_array - seeded with the shipped samples, "
                    "the Test table, synthetic gA files and a structure-aware mutation pass (delete/duplicate/truncate lines, hostile numbers); artifacts are "
                    "re-run alone for triage and keyed target|kind|frames; catalogue list files: one process per mutated resource directory; "
                    "distinct = libFuzzer coverage features reached, summed over targets",
            "samples": [{"target": t, **per[t]} for t in TARGETS] + [{"catalogue_cases": ncat, **outcomes}],
            "per_target": per,
            "catalogue": {"cases": ncat, **outcomes},
        })
        chk.assumptions += ["a timeout artifact counts as a hang only if it times out again stand-alone (60 s); otherwise it is ignored",
                            "after a successful load the monitor applies the loader's own predicate: event::is_valid(); finite non-negative energies from the gA sampler"]
    finally:
        shutil.rmtree(root, ignore_errors=True)
    chk.finish()


if __name__ == "__main__":
    main_guard(main)
