#!/usr/bin/env python3
"""C13 - bxdecay0-run output is reproducible, complete and equal to the library API's."""
import math
import os
import re
import shutil
import sys

sys.path.insert(0, os.path.dirname(os.path.dirname(os.path.abspath(__file__))))
from vlib import build, genmon, schemes
from vlib.common import Check, NCPU, Rng, main_guard, pmap, run, sanitizer_key

CHEAP_MODES = [1, 2, 3, 7, 9, 10, 11, 12, 17, 18, 20]
LABELS = ["all", "e-", "electron", "gamma", "g", "e+", "alpha", "*"]


def gen_cases(chk, n, table):
    rng = Rng(chk.seed, 1313)
    bkg = schemes.background_names()
    dbd = schemes.dbd_names()
    cases = []
    for i in range(n):
        c = {"id": i, "cat": rng.choice(["background", "dbd"]), "seed": rng.randint(0, 2 ** 31 - 1), "n": rng.choice([1, 1, 2, 3, 7, 20, 60, 300]),
             "level": None, "mode": None, "emin": None, "emax": None, "activity": None, "mdl": None, "extra": [], "bad": None, "basename_kind": "ok", "order": rng.randint(0, 5)}
        family = i % 8   # stratified: every feature family is present in every run, whatever the seed
        if family in (4, 5, 6):
            # double beta with an energy window (both bounds / lower only / upper only), on configurations whose initialisation is cheap
            c["cat"] = "dbd"
            wcells = [(n_, 0, 10) for n_ in dbd if genmon.rule_accepts(table, n_, 0, 10) and genmon.e0_of(table, n_, 0, 10) > 0.2]
            wcells += [(n_, 0, m_) for n_ in ("Zn70", "Ca46", "Sn122", "Ce142") for m_ in (4, 5, 6, 13) if genmon.rule_accepts(table, n_, 0, m_)]
            c["nuclide"], c["level"], c["mode"] = rng.choice(wcells)
            e0 = genmon.e0_of(table, c["nuclide"], 0, c["mode"])
            steps = int(e0 * 64)
            a = rng.randint(0, max(0, steps // 2))
            b = a + rng.randint(max(1, steps // 4), steps)
            c["emin"] = a / 64.0 if family != 6 else None
            c["emax"] = (b + 0.5) / 64.0 if family != 5 else None      # never an integer number of MeV
        elif c["cat"] == "background" or family in (0, 1):
            c["cat"] = "background"
            c["nuclide"] = rng.choice(bkg)
        else:
            c["nuclide"] = rng.choice(dbd)
            lv = sorted(table[c["nuclide"]]["levels"])
            c["level"] = rng.choice(lv + [0, 0])
            ok = [m for m in CHEAP_MODES if genmon.rule_accepts(table, c["nuclide"], c["level"], m)]
            c["mode"] = rng.choice(ok) if ok and rng.uniform() < 0.8 else rng.choice(CHEAP_MODES)
            if c["mode"] == 10 and rng.uniform() < 0.5 and genmon.rule_accepts(table, c["nuclide"], c["level"], 10):
                e0 = genmon.e0_of(table, c["nuclide"], c["level"], 10)
                steps = int(e0 * 64)
                if steps >= 4:
                    a = rng.randint(0, steps // 2)
                    b = a + rng.randint(max(1, steps // 4), steps)
                    k = rng.randint(0, 2)
                    c["emin"] = a / 64.0 if k != 1 else None
                    c["emax"] = b / 64.0 if k != 2 else None
        if rng.uniform() < 0.3 or family == 1:
            c["activity"] = rng.choice([0.5, 1.0, 12.5, 1000.0, 1e-3])
        if rng.uniform() < 0.25 or family == 2:
            c["mdl"] = {"label": rng.choice(LABELS), "rank": rng.randint(-1, 3), "phi": rng.choice([0.0, 45.0, -120.0, 180.0]),
                        "theta": rng.choice([0.0, 90.0, 30.0, 180.0]), "aperture": rng.choice([0.0, 5.0, 30.0, 90.0, 170.0])}
            # any single --pgop-mdl-* option switches the operation on; the options not given keep the defaults of the operation's
            # configuration (label '', rank -1, angles 0): a third of the MDL command lines give only a subset
            keys = ["label", "rank", "phi", "theta", "aperture"]
            if rng.uniform() < 0.35:
                given = [k for k in keys if rng.uniform() < 0.5] or [rng.choice(keys)]
                if rng.uniform() < 0.6 and "label" not in given:
                    given.append("label")
                defaults = {"label": "", "rank": -1, "phi": 0.0, "theta": 0.0, "aperture": 0.0}
                for k in keys:
                    if k not in given:
                        c["mdl"][k] = defaults[k]
                c["mdl"]["given"] = given
            else:
                c["mdl"]["given"] = keys
        # hostile variations (each makes the command line one that must be refused)
        r = rng.uniform()
        if r < 0.06:
            c["bad"] = "unknown-nuclide"
            c["nuclide"] = rng.choice(["Xx99", "co60", "Mo-100", "", "Cs137"])
        elif r < 0.10 and c["cat"] == "dbd":
            c["bad"] = "mode-out-of-range"
            c["mode"] = rng.choice([0, 25, -1, 99])
        elif r < 0.14 and c["cat"] == "dbd":
            c["bad"] = "level-not-tabulated"
            c["level"] = max(table[c["nuclide"]]["levels"]) + rng.randint(1, 3) if c["nuclide"] in table else 7
        elif r < 0.18 and c["cat"] == "dbd":
            c["bad"] = "window-on-unsupported-mode"
            c["mode"] = rng.choice([1, 2, 3, 7, 9, 11, 12, 17, 20])
            c["emin"], c["emax"] = 0.5, 1.5
        elif r < 0.21:
            c["bad"] = "unknown-option"
            c["extra"] = [rng.choice(["--frobnicate", "-Z", "--nb-event", "--pgop-mdl-cone-aperture2"]), "3"]
        elif r < 0.25:
            c["bad"] = "missing-option-argument"
        elif r < 0.28:
            c["bad"] = "malformed-number"
        elif r < 0.31:
            c["bad"] = "bad-activity"
            c["activity"] = rng.choice([0.0, -3.0])
        elif r < 0.34:
            c["bad"] = "bad-count"
            c["n"] = rng.choice([0, -5])
        elif r < 0.37:
            c["basename_kind"] = rng.choice(["missing-dir", "unwritable-dir"])
            c["bad"] = "basename-" + c["basename_kind"]
        elif r < 0.39:
            c["bad"] = "two-basenames"
        elif r < 0.44 and r >= 0.41 and c["mdl"]:
            # a direction or an aperture that is not a number (what a script computing acos(1.0000001) hands over): not a supported value
            c["bad"] = "mdl-nan-angle"
            kk = rng.choice(["phi", "theta", "aperture"])
            c["mdl"][kk] = float("nan")
            if kk not in c["mdl"]["given"]:
                c["mdl"]["given"].append(kk)
            if "label" not in c["mdl"]["given"]:
                c["mdl"]["given"].append("label")
            if c["mdl"]["label"] == "":
                c["mdl"]["label"] = "all"
        elif r < 0.41 and c["mdl"]:
            c["bad"] = "mdl-bad-label"
            c["mdl"]["label"] = "muon"
            if "label" not in c["mdl"]["given"]:
                c["mdl"]["given"].append("label")
        cases.append(c)
    # names of the OTHER category and published short forms that the list files do not contain: the library matches names by prefix,
    # so the driver's own list check is the only guard ('-c background -N Zr96' must be refused: the background name is Zr96+Nb96)
    cross = [("background", x) for x in dbd if x not in bkg] + [("dbd", x) for x in bkg if x not in dbd]
    cross += [("background", x.split("+")[0]) for x in bkg if "+" in x and x.split("+")[0] not in bkg]
    rng2 = Rng(chk.seed, 1317)
    pick = rng2.sample(cross, min(len(cross), 10 if n <= 100 else 120))
    for must in (("background", "Zr96"), ("background", "Ca48"), ("background", "Bi214"), ("dbd", "Co60")):
        if must in cross and must not in pick:
            pick.append(must)
    for j, (cat, nuc) in enumerate(pick):
        cases.append({"id": n + 100 + j, "cat": cat, "nuclide": nuc, "seed": 100 + j, "n": 5, "level": 0 if cat == "dbd" else None, "mode": 1 if cat == "dbd" else None,
                      "emin": None, "emax": None, "activity": None, "mdl": None, "extra": [], "bad": "nuclide-of-the-other-list", "basename_kind": "ok", "order": j % 6})
    # every --pgop-mdl-* option alone (each of them switches the operation on by itself), in every run whatever the seed
    defaults = {"label": "", "rank": -1, "phi": 0.0, "theta": 0.0, "aperture": 0.0}
    values = {"label": "e-", "rank": 0, "phi": 45.0, "theta": 90.0, "aperture": 30.0}
    for j, k in enumerate(["label", "rank", "phi", "theta", "aperture"]):
        m = dict(defaults)
        m[k] = values[k]
        m["given"] = [k]
        cases.append({"id": n + j, "cat": "background", "nuclide": ["Cs137+Ba137m", "Co60", "Bi214+Po214", "K40", "Tl208"][j], "seed": 314159 + j, "n": 7, "level": None, "mode": None,
                      "emin": None, "emax": None, "activity": None, "mdl": m, "extra": [], "bad": None, "basename_kind": "ok", "order": j})
    for j, kk in enumerate(["phi", "theta", "aperture"]):
        m = {"label": "e-", "rank": 0, "phi": 45.0, "theta": 90.0, "aperture": 30.0, "given": ["label", "rank", "phi", "theta", "aperture"]}
        m[kk] = float("nan")
        cases.append({"id": n + 50 + j, "cat": "background", "nuclide": "Co60", "seed": 77 + j, "n": 3, "level": None, "mode": None, "emin": None, "emax": None, "activity": None,
                      "mdl": m, "extra": [], "bad": "mdl-nan-angle", "basename_kind": "ok", "order": j})
    # every published nuclide of both list files (read from the files, not from the library's accessors) once, in every run: the driver
    # validates names against its own copy of the lists
    k = 0
    for nuc in bkg:
        cases.append({"id": n + 1000 + k, "cat": "background", "nuclide": nuc, "seed": 2000 + k, "n": 2, "level": None, "mode": None, "emin": None, "emax": None, "activity": None,
                      "mdl": None, "extra": [], "bad": None, "basename_kind": "ok", "order": k % 6})
        k += 1
    for nuc in dbd:
        ok = [m for m in CHEAP_MODES if nuc in table and genmon.rule_accepts(table, nuc, 0, m)]
        if not ok:
            continue
        cases.append({"id": n + 1000 + k, "cat": "dbd", "nuclide": nuc, "seed": 2000 + k, "n": 2, "level": 0, "mode": ok[0], "emin": None, "emax": None, "activity": None,
                      "mdl": None, "extra": [], "bad": None, "basename_kind": "ok", "order": k % 6})
        k += 1
    return cases


def argv_of(c, basename):
    opts = []
    opts.append(["-c" if c["order"] % 2 else "--decay-category", c["cat"]])
    opts.append(["-N" if c["order"] % 3 else "--nuclide", c["nuclide"]])
    opts.append(["-s", str(c["seed"])])
    opts.append(["-n" if c["order"] % 2 else "--nb-events", str(c["n"])])
    if c["level"] is not None:
        opts.append(["-l", str(c["level"])])
    if c["mode"] is not None:
        opts.append(["-m" if c["order"] % 2 else "--dbd-mode", str(c["mode"])])
    if c["emin"] is not None:
        opts.append(["-e", repr(c["emin"])])
    if c["emax"] is not None:
        opts.append(["-E", repr(c["emax"])])
    if c["activity"] is not None:
        opts.append(["-a", repr(c["activity"])])
    if c["mdl"]:
        m = c["mdl"]
        allo = {"label": ["--pgop-mdl-particle", m["label"]], "rank": ["--pgop-mdl-rank", str(m["rank"])], "phi": ["--pgop-mdl-cone-phi", repr(m["phi"])],
                "theta": ["--pgop-mdl-cone-theta", repr(m["theta"])], "aperture": ["--pgop-mdl-cone-aperture", repr(m["aperture"])]}
        opts += [allo[k] for k in m.get("given", list(allo))]
    if c["extra"]:
        opts.append(c["extra"])
    # option order
    k = c["order"]
    opts = opts[k % len(opts):] + opts[:k % len(opts)]
    flat = [x for o in opts for x in o]
    if c["bad"] == "malformed-number":
        for i, x in enumerate(flat):
            if x in ("-s", "-n", "--nb-events"):
                flat[i + 1] = "abc" if k % 2 else "--"   # no numeric prefix: std::stoi accepts "12abc" as 12, which is not a refusal case
                break
    if c["bad"] == "two-basenames":
        flat = flat + [basename, basename + "_2"]
    elif c["bad"] == "missing-option-argument":
        flat = flat + [basename, ["-s", "--seed", "-N", "-b", "--pgop-mdl-rank", "-E"][k % 6]]   # an option as the very last token
    elif k % 2:
        flat = flat + [basename]
    else:
        flat = ["-b", basename] + flat
    return flat


def parse_d0t(text):
    """Returns list of (id, nparticles) or None if malformed."""
    toks = text.split()
    i = 0
    out = []
    try:
        while i < len(toks):
            eid = int(toks[i]); float(toks[i + 1]); i += 3
            n = int(toks[i]); i += 1
            for _ in range(n):
                int(toks[i]); [float(x) for x in toks[i + 1:i + 5]]
                if len(toks[i + 1:i + 5]) != 4:
                    return None
                i += 5
            out.append((eid, n))
    except (ValueError, IndexError):
        return None
    return out


def read(p):
    try:
        return open(p, "rb").read()
    except OSError:
        return None


def strip_time(b):
    return re.sub(rb"time-from-epoch-s=\d+\n", b"", b or b"")


def main():
    chk = Check("C13", "fault_enumeration")
    quick = chk.tier == "quick"
    table = schemes.ref_dbd_table()
    root = os.path.join(build.cache_root(), "c13.%d" % os.getpid())
    shutil.rmtree(root, ignore_errors=True)
    os.makedirs(root)
    os.makedirs(os.path.join(root, "ro"))
    os.chmod(os.path.join(root, "ro"), 0o555)
    try:
        bplain = build.build("plain")
        basan = build.build("asan")
        cli = os.path.join(bplain, "bxdecay0-run")
        cli_asan = os.path.join(basan, "bxdecay0-run")
        oracle = build.harness("plain", "c13_expect", ["c13_expect.cc"])
        cases = gen_cases(chk, 80 if quick else 2500, table)
        lis_b, lis_d = set(schemes.background_names()), set(schemes.dbd_names())

        def one(c):
            d = os.path.join(root, "c%05d" % c["id"])
            os.makedirs(d)
            if c["basename_kind"] == "missing-dir":
                base = os.path.join(d, "nosuchdir", "out")
            elif c["basename_kind"] == "unwritable-dir":
                # the checks may run as root, for whom a read-only directory is writable: use a regular file as parent directory (ENOTDIR)
                open(os.path.join(d, "afile"), "w").write("x")
                base = os.path.join(d, "afile", "out")
            else:
                base = os.path.join(d, "out")
            argv = argv_of(c, base)
            res = {"c": c, "argv": argv, "base": base}
            env = build.lib_env("plain")
            r1 = run([cli] + argv, timeout=300, env=env)
            res["r1"] = (r1[0], r1[2][-1500:], bool(re.search(r"error", r1[2], re.I)))
            res["t1"], res["c1"] = read(base + ".d0t"), read(base + ".d0c")
            for ext in (".d0t", ".d0c"):
                if os.path.exists(base + ext):
                    os.replace(base + ext, base + ".first" + ext)
            r2 = run([cli] + argv, timeout=300, env=env)
            res["t2"], res["c2"] = read(base + ".d0t"), read(base + ".d0c")
            # the oracle
            nan = "nan"
            oargs = [os.path.join(d, "expected.d0t"), c["cat"], c["nuclide"] or "-", str(c["seed"]), str(max(c["n"], 0)), str(c["level"] if c["level"] is not None else 0),
                     str(c["mode"] if c["mode"] is not None else 0), repr(c["emin"]) if c["emin"] is not None else nan, repr(c["emax"]) if c["emax"] is not None else nan,
                     repr(c["activity"]) if c["activity"] is not None else nan, "1" if c["mdl"] else "0"]
            if c["mdl"]:
                m = c["mdl"]
                oargs += [m["label"], str(m["rank"]), repr(m["phi"]), repr(m["theta"]), repr(m["aperture"])]
            ro = run([oracle] + oargs, timeout=300, env=env)
            res["oracle"] = (ro[0], ro[1][-300:])
            res["expected"] = read(os.path.join(d, "expected.d0t"))
            # sanitizer build on the same command line
            if c["id"] % (3 if quick else 6) == 0:
                for ext in (".d0t", ".d0c"):
                    if os.path.exists(base + ext):
                        os.unlink(base + ext)
                ra = run([cli_asan] + argv, timeout=600, env=build.lib_env("asan"))
                res["asan"] = (ra[0], ra[2][-4000:])
            shutil.rmtree(d, ignore_errors=True)
            return res

        results = pmap(one, cases, jobs=NCPU)
        n_acc = n_ref = 0
        classes = set()
        samples = []
        for r in results:
            c = r["c"]
            rc1, err1, diag = r["r1"]
            tag = "%s %s" % (c["cat"], " ".join(r["argv"][:14]))
            cli_rule_refuses = c["bad"] is not None
            if c["bad"] is None:
                if (c["cat"] == "background" and c["nuclide"] not in lis_b) or (c["cat"] == "dbd" and c["nuclide"] not in lis_d):
                    cli_rule_refuses = True
            expect_accept = (not cli_rule_refuses) and r["oracle"][0] == 0
            if r["oracle"][0] not in (0, 3):
                chk.inconclusive_("oracle program failed on case %d: %s" % (c["id"], r["oracle"]))
                continue
            cls = "%s/%s/%s" % (c["cat"], c["bad"] or ("accept" if expect_accept else "library-refuses"), "mdl" if c["mdl"] else "plain")
            classes.add(cls)
            wit = {"argv": r["argv"], "exit": rc1, "stderr": err1[-600:], "case": c}
            has_marker = b"@status=0" in (r["c1"] or b"")
            recs = parse_d0t((r["t1"] or b"").decode("latin-1")) if r["t1"] else []
            if "asan" in r:
                ka = sanitizer_key(r["asan"][1])
                if ka:
                    chk.violation("sanitizer|" + ka, "bxdecay0-run (ASan build) on `%s`: %s" % (tag, r["asan"][1][-700:]), wit)
            if rc1 is None:
                chk.violation("hang|" + cls, "bxdecay0-run did not finish within 300 s: %s" % tag, wit)
                continue
            if rc1 < 0:
                chk.violation("signal%d|%s" % (-rc1, c["bad"] or "accept"), "bxdecay0-run died with signal %d on `%s`: %s" % (-rc1, tag, err1[-300:]), wit)
                continue
            if expect_accept:
                n_acc += 1
                if r["t1"] is None or r["t1"] != r["expected"]:
                    chk.violation("content-differs-from-api|" + ("mdl" if c["mdl"] else "activity" if c["activity"] else "plain"),
                                  "event file of `%s` is not byte-identical to what the library API yields for the same seed and settings" % tag, wit)
                elif recs is None or len(recs) != c["n"] or [x[0] for x in recs] != list(range(c["n"])):
                    chk.violation("records|count-or-ids", "`%s`: expected %d records with ids 0..n-1" % (tag, c["n"]), wit)
                if r["t1"] != r["t2"]:
                    chk.violation("not-reproducible|d0t", "two runs of `%s` give different event files" % tag, wit)
                if strip_time(r["c1"]) != strip_time(r["c2"]):
                    chk.violation("not-reproducible|d0c", "two runs of `%s` give different companion files (beyond time-from-epoch-s)" % tag, wit)
                if not has_marker:
                    chk.violation("marker-missing", "`%s` completed but the companion file lacks @status=0" % tag, wit)
                kv = dict(l.split("=", 1) for l in (r["c1"] or b"").decode("latin-1").splitlines() if "=" in l)
                want = {"decay-category": c["cat"], "nuclide": c["nuclide"], "seed": str(c["seed"]), "nb-events": str(c["n"])}
                if c["cat"] == "dbd":
                    want.update({"dbd-daughter-level": str(c["level"]), "dbd-mode": str(c["mode"])})
                for k, v in want.items():
                    if kv.get(k) != v:
                        chk.violation("companion|" + k, "`%s`: companion key %s=%r, effective setting %r" % (tag, k, kv.get(k), v), wit)
                if c["activity"] is not None and abs(float(kv.get("activity-Bq", "nan")) - c["activity"]) > 1e-12 * c["activity"]:
                    chk.violation("companion|activity-Bq", "`%s`: activity-Bq=%r" % (tag, kv.get("activity-Bq")), wit)
                if c["emin"] is not None or c["emax"] is not None:
                    lo = float(kv.get("erange-min-energy-MeV", "nan"))
                    hi = float(kv.get("erange-max-energy-MeV", "nan"))
                    if (c["emin"] is not None and lo != c["emin"]) or (c["emax"] is not None and hi != c["emax"]) or not float(kv.get("erange-toallevents", "0")) >= 1.0 - 1e-3:
                        # (the ratio is a quotient of two quadratures: a window covering nearly the whole range gives 1 up to their rounding,
                        #  e.g. 0.999999999931913 for Cd106 mode 10 with -E 1.7109375 on the unchanged tree)
                        chk.violation("companion|erange", "`%s`: erange keys %r %r %r" % (tag, kv.get("erange-min-energy-MeV"), kv.get("erange-max-energy-MeV"), kv.get("erange-toallevents")), wit)
                if c["mdl"]:
                    m = c["mdl"]
                    if kv.get("mdl.particle_label") != m["label"] or kv.get("mdl.target_particle_rank") != str(m["rank"]) or float(kv.get("mdl.cone_aperture_degree", "nan")) != m["aperture"]:
                        chk.violation("companion|mdl", "`%s`: mdl keys do not report the settings" % tag, wit)
                if len(samples) < 2:
                    samples.append({"argv": r["argv"], "first_record": (r["t1"] or b"")[:160].decode("latin-1")})
            else:
                n_ref += 1
                if recs is None or recs:
                    chk.violation("refused-but-events|" + (c["bad"] or "library-refuses"), "`%s` must be refused, but an event file with records was written" % tag, wit)
                if has_marker:
                    chk.violation("refused-but-marker|" + (c["bad"] or "library-refuses"), "`%s` must be refused, but the companion file carries @status=0" % tag, wit)
                if rc1 == 0 and not diag:
                    chk.violation("refused-silently|" + (c["bad"] or "library-refuses"), "`%s` was refused without any diagnostic (exit 0, nothing on stderr)" % tag, wit)
        # ---- fault enumeration: every write() of the fault-free run is once a kill point and once an I/O error
        fe = fault_enumeration(chk, root, cli, 3 if quick else 40)
        ru = basename_reuse(chk, root, cli, quick)
        chk.require(ru["scenarios"] >= 20, "only %d basename re-use scenarios ran" % ru["scenarios"])
        chk.require(n_acc >= 10 and n_ref >= 10, "too few accepted (%d) / refused (%d) command lines" % (n_acc, n_ref))
        chk.coverage.update({
            "evaluations": len(results) * 2 + fe["runs"] + 2 * ru["scenarios"],
            "distinct_nontrivial": len(classes) + fe["points"],
            "rule": "command lines generated over category, nuclide (list files and invalid), level, mode, window, seed, count 1..300, activity, MDL options, "
                    "option order and short/long forms, plus hostile variants (unknown option, option without argument as last token, malformed numbers, "
                    "bad activity/count, two basenames, missing/unwritable directory, bad MDL label); accepted ones: byte-identity with an API-only "
                    "renderer, two identical runs, companion keys, @status=0; refused ones: no record, no marker, a diagnostic; a third of them also in the "
                    "ASan build; fault enumeration: for selected command lines every write() of the fault-free run is replaced once by SIGKILL, ENOSPC "
                    "and EIO (strace inject) and the implication '@status=0 => event file complete' is checked; basename re-use: a complete run followed, on the same basename, by a run that is "
                    "refused (by the library at initialisation, by the driver) or killed at one of its first writes - the same implication on what is left on disk; "
                    "distinct = command-line classes + fault points",
            "samples": samples or [{"note": "none"}],
            "command_lines": len(results),
            "accepted": n_acc,
            "refused": n_ref,
            "classes": sorted(classes),
            "fault_enumeration": fe,
            "basename_reuse": ru,
            "exhaustive": True,
        })
        chk.assumptions += ["on-disk state only changes at write(): syscall granularity is exhaustive for the two files",
                            "a refusal is diagnosed by a non-zero exit status or an error line on stderr"]
    finally:
        os.chmod(os.path.join(root, "ro"), 0o755)
        shutil.rmtree(root, ignore_errors=True)
    chk.finish()


def fault_enumeration(chk, root, cli, ncmd):
    rng = Rng(chk.seed, 1314)
    cmds = [["-c", "background", "-N", "Co60", "-s", "7", "-n", "4"],
            ["-c", "dbd", "-N", "Mo100", "-l", "0", "-m", "1", "-s", "11", "-n", "3", "-a", "2.5"],
            ["-c", "background", "-N", "Bi214+Po214", "-s", "3", "-n", "12", "--pgop-mdl-particle", "e-", "--pgop-mdl-rank", "0", "--pgop-mdl-cone-theta", "90",
             "--pgop-mdl-cone-aperture", "20"]]
    bkg = schemes.background_names()
    while len(cmds) < ncmd:
        cmds.append(["-c", "background", "-N", rng.choice(bkg), "-s", str(rng.randint(1, 9999)), "-n", str(rng.randint(1, 9))])
    cmds = cmds[:ncmd]
    env = build.lib_env("plain")
    jobs = []
    info = {"command_lines": len(cmds), "points": 0, "runs": 0, "injected_confirmed": 0, "marker_present_after_fault": 0, "per_command": []}
    for ci, cmd in enumerate(cmds):
        d = os.path.join(root, "fe%03d" % ci)
        os.makedirs(d)
        base = os.path.join(d, "ref")
        rc, out, err = run(["strace", "-f", "-e", "trace=write", "-o", os.path.join(d, "trace.log"), cli] + cmd + [base], timeout=300, env=env)
        if rc != 0:
            chk.inconclusive_("fault-free strace run failed (rc=%s): %s" % (rc, err[-300:]))
            continue
        nwrites = len([l for l in open(os.path.join(d, "trace.log")) if " write(" in l])
        ref_t = read(base + ".d0t")
        n = int(cmd[cmd.index("-n") + 1])
        info["per_command"].append({"argv": cmd, "writes": nwrites})
        for k in range(1, nwrites + 1):
            for fault in ("signal=SIGKILL", "error=ENOSPC", "error=EIO"):
                jobs.append((ci, cmd, n, ref_t, k, fault, d))
    info["points"] = len(jobs)

    def one(j):
        ci, cmd, n, ref_t, k, fault, d = j
        base = os.path.join(d, "f%d_%s" % (k, fault.replace("=", "")))
        log = base + ".strace"
        rc, out, err = run(["strace", "-f", "-e", "trace=write", "-e", "inject=write:%s:when=%d" % (fault, k), "-o", log, cli] + cmd + [base], timeout=300, env=env)
        try:
            lg = open(log).read()
        except OSError:
            lg = ""
        injected = "(INJECTED)" in lg or "killed by SIGKILL" in lg
        t, c = read(base + ".d0t"), read(base + ".d0c")
        marker = b"@status=0" in (c or b"")
        complete = t is not None and t == ref_t
        for p in (base + ".d0t", base + ".d0c", log):
            if os.path.exists(p):
                os.unlink(p)
        return j, rc, injected, marker, complete, err[-300:]

    for j, rc, injected, marker, complete, err in pmap(one, jobs, jobs=NCPU):
        ci, cmd, n, ref_t, k, fault, d = j
        info["runs"] += 1
        if injected:
            info["injected_confirmed"] += 1
        else:
            chk.inconclusive_("fault %s at write %d of `%s` did not fire" % (fault, k, " ".join(cmd)))
            continue
        if marker:
            info["marker_present_after_fault"] += 1
            if not complete:
                chk.violation("marker-without-complete-file|" + fault.split("=")[1],
                              "`%s` with %s injected at write #%d: the companion file carries @status=0 but the event file is not the complete one" % (" ".join(cmd), fault, k),
                              {"argv": cmd, "fault": fault, "write_index": k, "exit": rc, "stderr": err})
    return info


def basename_reuse(chk, root, cli, quick):
    """A complete run, then another command line on the SAME basename that stops before or during its own run (refused by the
    library at initialisation, refused by the driver, killed while initialising): whatever is on disk afterwards, a companion file
    with '@status=0' must sit next to the complete event file it describes."""
    rng = Rng(chk.seed, 1315)
    env = build.lib_env("plain")
    firsts = [["-s", "7", "-n", "5", "-c", "dbd", "-N", "Mo100", "-m", "1", "-l", "0"],
              ["-s", "9", "-n", "3", "-c", "background", "-N", "Co60"],
              ["-s", "5", "-n", "4", "-c", "dbd", "-N", "Zn70", "-m", "5", "-l", "0", "-e", "0.25"]]
    seconds = [["-s", "7", "-n", "5", "-c", "dbd", "-N", "Mo100", "-m", "1", "-l", "9"],                    # level the library refuses
               ["-s", "7", "-n", "5", "-c", "dbd", "-N", "Mo100", "-m", "20", "-l", "0"],                   # 4b mode on Mo100
               ["-s", "7", "-n", "5", "-c", "dbd", "-N", "Zn70", "-m", "5", "-l", "0", "-e", "0.75", "-E", "0.25"],  # inverted window
               ["-s", "7", "-n", "5", "-c", "dbd", "-N", "Zn70", "-m", "5", "-l", "0", "-e", "3.0"],        # window above the range
               ["-s", "7", "-n", "5", "-c", "dbd", "-N", "Mo100", "-m", "1", "-l", "0", "-e", "1.0"],       # window on a mode without one
               ["-s", "7", "-n", "5", "-c", "background", "-N", "Xx99"],                                     # refused by the driver
               ["-s", "7", "-n", "0", "-c", "background", "-N", "Co60"]]                                     # nothing to do / refused count
    jobs = [(i, j, False) for i in range(len(firsts)) for j in range(len(seconds))]
    # a second run killed at its k-th write (strace): the first writes happen while the files are being set up
    jobs += [(i, -k, True) for i in range(len(firsts)) for k in range(1, 4 if quick else 9)]
    info = {"scenarios": 0, "marker_after_second_run": 0, "second_run_refused": 0}

    def one(job):
        i, j, kill = job
        d = os.path.join(root, "reuse_%d_%s%d" % (i, "k" if kill else "s", abs(j)))
        os.makedirs(d)
        base = os.path.join(d, "out")
        r1 = run([cli] + firsts[i] + [base], timeout=300, env=env)
        t1, c1 = read(base + ".d0t"), read(base + ".d0c")
        if kill:
            cmd2 = firsts[(i + 1) % len(firsts)]
            r2 = run(["strace", "-f", "-e", "trace=write", "-e", "inject=write:signal=SIGKILL:when=%d" % (-j), "-o", os.path.join(d, "t.log"), cli] + cmd2 + [base], timeout=300, env=env)
        else:
            cmd2 = seconds[j]
            r2 = run([cli] + cmd2 + [base], timeout=300, env=env)
        t2, c2 = read(base + ".d0t"), read(base + ".d0c")
        shutil.rmtree(d, ignore_errors=True)
        return job, r1[0], t1, c1, cmd2, r2[0], t2, c2

    for job, rc1, t1, c1, cmd2, rc2, t2, c2 in pmap(one, jobs, jobs=NCPU):
        i, j, kill = job
        if rc1 != 0 or b"@status=0" not in (c1 or b""):
            chk.inconclusive_("basename re-use: the first run `%s` did not complete (rc=%s)" % (" ".join(firsts[i]), rc1))
            continue
        info["scenarios"] += 1
        if rc2 != 0:
            info["second_run_refused"] += 1
        if b"@status=0" in (c2 or b""):
            info["marker_after_second_run"] += 1
            m = re.search(rb"nb-events=(\d+)", c2 or b"")
            recs = parse_d0t((t2 or b"").decode("latin-1")) if t2 is not None else None
            want = int(m.group(1)) if m else None
            ok = recs is not None and want is not None and len(recs) == want and [r[0] for r in recs] == list(range(want))
            if not ok:
                chk.violation("marker-without-complete-file|basename-reused",
                              "after `%s` and then `%s`%s on the same basename the companion file carries @status=0 (nb-events=%s) but the event file holds %s records"
                              % (" ".join(firsts[i]), " ".join(cmd2), " (killed at write %d)" % -j if kill else "", want, "unparsable" if recs is None else len(recs)),
                              {"first": firsts[i], "second": cmd2, "killed_at_write": -j if kill else None, "exit_second": rc2})
    return info


if __name__ == "__main__":
    main_guard(main)
